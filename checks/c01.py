"""C01 -- risk limit: exact probability of ever reporting p <= alpha under every null population / law (S1 trie)."""
import itertools
from fractions import Fraction as F
from math import factorial

from vmc import core
from . import s1

ID = "C01"
RULE = (
    "finite N: every multiset population of N grid values with mean <= t (exact) and all its orderings, walked as the "
    "urn process on the draw-prefix trie with exact integer path weights; N=inf: every law on the grid with weights in "
    "multiples of 1/D and mean <= t plus every two-point grid law with mean exactly t, all IID sequences to the horizon. "
    "For each, the auditor's view q = min over stopping times n of (overall p of test(x[:n]) and every entry of its "
    "history) is taken from the real code and the exact step function alpha -> P(q <= alpha) is compared with alpha at "
    "every attained value below 1.  Non-trivial = (configuration, population/law) whose q takes a value below 1 with "
    "positive probability; distinct = distinct (configuration, population/law, distribution of q).  Plus populations whose values are "
    "not binary fractions: every multiset of 4 values from {0, 0.1, .., 1} whose mean, computed exactly from the floats, is <= t "
    "(t = 0.45, 0.35), all orderings, six test configurations"
)
ASSUMPTIONS = [
    "tolerance 1e-9 relative on P(q<=alpha) <= alpha (legitimate tests attain the bound up to float rounding of the product)",
    "NaN never counts as '<= alpha' (NaN is C11's business)",
    "for N=inf the finite-horizon probability is a lower bound of the true one, so an excess is a real violation",
]
REQUIRE_VAC = ["populations_of_non_binary_values", "populations", "laws", "paths_with_q_below_1", "boundary_populations_mean_eq_t"]
TOL = 1e-9
MUTATED = {}


def bounds(tier):
    cfgs = s1.configs(tier)
    return {"configurations": len(cfgs), "shapes(N,H,k)": sorted({(c["N"], c["H"], c["k"]) for c in cfgs}, key=str),
            "law_denominator_D": 4 if tier == "quick" else 8}


def qnode(obs):
    """the smallest number the auditor sees after exactly these draws (NaN ignored)"""
    vals = []
    if obs["exc"] is None and obs["p"] is not None:
        if obs["p"] == obs["p"]:
            vals.append(obs["p"])
        vals.extend(v for v in obs["hist"] if v == v)
    return min(vals) if vals else float("inf")


def null_populations(cfg):
    g = s1.grid(cfg)
    N, t = cfg["N"], s1.fr(cfg["t"])
    k1 = len(g)
    for counts in itertools.product(range(N + 1), repeat=k1):
        if sum(counts) != N:
            continue
        tot = sum(c * v for c, v in zip(counts, g))
        if tot <= N * t:
            yield counts, tot == N * t


def null_laws(cfg, D):
    g = s1.grid(cfg)
    t = s1.fr(cfg["t"])
    k1 = len(g)
    seen = set()
    for w in itertools.product(range(D + 1), repeat=k1):
        if sum(w) != D:
            continue
        if sum(wi * v for wi, v in zip(w, g)) <= D * t:
            key = tuple(F(wi, D) for wi in w)
            if key not in seen:
                seen.add(key)
                yield list(w), D, sum(wi * v for wi, v in zip(w, g)) == D * t
    for a in range(k1):
        for b in range(k1):
            if g[a] < t < g[b]:
                pb = (t - g[a]) / (g[b] - g[a])
                w = [0] * k1
                w[a] = pb.denominator - pb.numerator
                w[b] = pb.numerator
                key = tuple(F(wi, pb.denominator) for wi in w)
                if key not in seen:
                    seen.add(key)
                    yield w, pb.denominator, True


def dist_population(cfg, getobs, counts):
    """exact distribution of q over all orderings: dict q -> integer weight (total N!)"""
    N = cfg["N"]
    dist = {}
    counts = list(counts)

    def rec(idx, q, w):
        if len(idx) == N:
            dist[q] = dist.get(q, 0) + w
            return
        for a, c in enumerate(counts):
            if c:
                counts[a] -= 1
                nidx = idx + (a,)
                rec(nidx, min(q, qnode(getobs(nidx))), w * c)
                counts[a] += 1

    rec((), float("inf"), 1)
    return dist, factorial(N)


def dist_law(cfg, getobs, weights, den):
    H = cfg["H"]
    dist = {}

    def rec(idx, q, w):
        if len(idx) == H:
            dist[q] = dist.get(q, 0) + w
            return
        for a, c in enumerate(weights):
            if c:
                nidx = idx + (a,)
                rec(nidx, min(q, qnode(getobs(nidx))), w * c)

    rec((), float("inf"), 1)
    return dist, den ** H


def worst(dist, total):
    """(worst ratio, alpha, P) of the step function against the diagonal; ratio inf if P(q<=a)>0 for a<=0"""
    cum = 0
    best = (0.0, None, None)
    for a in sorted(dist):
        cum += dist[a]
        if a >= 1:
            break
        P = cum / total
        if a <= 0:
            r = float("inf") if P > 0 else 0.0
        else:
            r = P / a
        if r > best[0]:
            best = (r, a, P)
    return best


def judge_one(cfg, getobs, kind, spec):
    mk = s1.method_key(cfg)
    if kind == "pop":
        dist, total = dist_population(cfg, getobs, spec)
    else:
        dist, total = dist_law(cfg, getobs, spec[0], spec[1])
    r, a, P = worst(dist, total)
    out = []
    if MUTATED.get("flag"):
        out.append((f"C01|{mk}|input-mutated", f"{mk}: test() changes the sample array it is given; an auditor who re-evaluates the growing sample then feeds it altered draws (risk not controlled)"))
    if r > 1 + TOL:
        sub = "p-nonpositive-under-null" if (a is not None and a <= 0) else "risk-exceeds-alpha"
        out.append((f"C01|{mk}|{'finite-N' if kind == 'pop' else 'iid'}|{sub}",
                    f"{mk}: P(reported p or history entry <= {a}) = {P} > alpha under a null "
                    f"{'population' if kind == 'pop' else 'law'} (ratio {r})"))
    return out, dist, (r, a, P)


def run_cfg(sh, rec):
    cfg, D = sh
    trie = s1.build_trie(cfg, rec)
    getobs = trie.__getitem__
    MUTATED["flag"] = any(o.get("mutated") for o in trie.values())
    g = s1.grid(cfg)
    worst_ratio = 0.0
    items = []
    if cfg["N"] is not None:
        for counts, boundary in null_populations(cfg):
            items.append(("pop", list(counts), boundary))
    else:
        for w, den, boundary in null_laws(cfg, D):
            items.append(("law", [w, den], boundary))
    for kind, spec, boundary in items:
        v, dist, (r, a, P) = judge_one(cfg, getobs, kind, spec)
        rec.vac("populations" if kind == "pop" else "laws")
        if boundary:
            rec.vac("boundary_populations_mean_eq_t")
        below = sum(w for q, w in dist.items() if q < 1)
        if below:
            rec.vac("paths_with_q_below_1", len([q for q in dist if q < 1]))
            rec.outcome((s1.label(cfg), kind, spec, sorted(dist.items())))
        rec.observe((s1.label(cfg), kind, spec, sorted(dist.items())))
        if r != float("inf"):
            worst_ratio = max(worst_ratio, r)
        for key, what in v:
            rec.violate(key, what, {"cfg": cfg, "kind": kind, "spec": spec})
        if rec.want_sample((s1.label(cfg), kind, spec)):
            rec.sample({"config": s1.label(cfg), kind: spec, "grid": [str(x) for x in g],
                        "distinct_q_values": len(dist), "worst_ratio_P_over_alpha": r, "at_alpha": a, "P": P})
    rec.notes["largest_finite_ratio_P_over_alpha"] = worst_ratio


# ---------------------------------------------------------------- populations whose values are not binary fractions
DEC_METHODS = {
    "alpha_mart+fixed_alternative_mean": {"test": "alpha_mart", "estim": "fixed_alternative_mean", "kw": {"eta": 0.6}},
    "alpha_mart+shrink_trunc": {"test": "alpha_mart", "estim": "shrink_trunc", "kw": {"eta": 0.6}},
    "betting_mart+fixed_bet": {"test": "betting_mart", "bet": "fixed_bet", "kw": {"lam": 0.5}},
    "betting_mart+agrapa": {"test": "betting_mart", "bet": "agrapa", "kw": {"lam": 0.5}},
    "kaplan_kolmogorov": {"test": "kaplan_kolmogorov", "kw": {"g": 0.1}},
    "kaplan_kolmogorov(g=0)": {"test": "kaplan_kolmogorov", "kw": {"g": 0}},
    "wald_sprt": {"test": "wald_sprt", "kw": {"eta": 0.6}},
}
DEC_T = (0.45, 0.35, 0.5)


def dec_populations(t):
    """every multiset of 4 values from {0, 0.1, ..., 1} whose mean, computed exactly from the floating-point values, is at
    most the floating-point t: null populations in the strictest sense.  For t = 1/2 instead: every multiset of 2 or 3
    values from {0, 2^-53, 1/2, 1 - 2^-53, 1} (totals that tie with N t up to one unit in the last place)"""
    import itertools
    from fractions import Fraction as Fr
    if t == 0.5:
        vals = [0.0, 2.0 ** -53, 0.5, 1 - 2.0 ** -53, 1.0]
        for n in (2, 3):
            for pop in itertools.combinations_with_replacement(vals, n):
                if sum(Fr(v) for v in pop) <= n * Fr(t):
                    yield pop
        return
    vals = [i / 10 for i in range(11)]
    for pop in itertools.combinations_with_replacement(vals, 4):
        if sum(Fr(v) for v in pop) <= 4 * Fr(t):
            yield pop


def judge_decimal(mname, t, pop, f32=False):
    """exact risk over all orderings of one population (sampled completely, without replacement); f32: the sample arrives
    as a single-precision array (then the population is the single-precision values, and must still be null)"""
    import itertools
    import warnings
    import numpy as np
    from shangrla.core.NonnegMean import NonnegMean
    m = DEC_METHODS[mname]
    with warnings.catch_warnings():
        warnings.simplefilter("ignore")
        nm = NonnegMean(test=s1.TESTS[m["test"]], estim=s1.ESTIMS[m["estim"]] if m.get("estim") else None, bet=s1.BETS[m["bet"]] if m.get("bet") else None,
                        u=1, N=len(pop), t=t, **m["kw"])
        if f32:
            from fractions import Fraction as Fr
            if sum(Fr(float(np.float32(v))) for v in pop) > len(pop) * Fr(t):
                return []  # rounded to single precision the population is no longer null
        qs = []
        for perm in sorted(set(itertools.permutations(pop))):
            p, h = nm.test(np.array(perm, dtype=np.float32) if f32 else np.array(perm))
            qs.append(min(float(p), float(np.nanmin(np.asarray(h, dtype=float)))))
    n = len(qs)
    for a in sorted(set(qs)):
        P = sum(1 for q in qs if q <= a) / n
        if a < 1 and P > a + TOL:
            key = f"C01|{mname}|finite-N|risk-exceeds-alpha|non-binary-values{'|float32' if f32 else ''}|t={t}|population={','.join(format(v, 'g') for v in pop)}"
            return [(key, f"{mname}, N={len(pop)}, t={t}: the null population {list(pop)} (exact mean of the floats <= t) sampled completely gives P(p <= {a}) = {P:.4f} "
                          f"over its {n} orderings: the running total is compared with N t in floating point and rounds one ulp above it")]
    return []


def run_decimal(sh, rec):
    _, mname, t = sh
    for pop in dec_populations(t):
        rec.state()
        rec.trans()
        rec.evals(24)
        rec.vac("populations_of_non_binary_values")
        for key, what in judge_decimal(mname, t, pop):
            rec.violate(key, what, {"decimal": True, "method": mname, "t": t, "pop": list(pop)})
        rec.evals(24)
        for key, what in judge_decimal(mname, t, pop, f32=True):
            rec.violate(key, what + " [sample passed as a float32 array]", {"decimal": True, "method": mname, "t": t, "pop": list(pop), "f32": True})


def run_shard(sh, rec):
    if sh[0] == "decimal":
        return run_decimal(sh, rec)
    return run_cfg(sh, rec)


def explore(tier, seed):
    D = 4 if tier == "quick" else 8
    return core.pmap(run_shard, [(c, D) for c in s1.configs(tier)] + [("decimal", m, t) for m in DEC_METHODS for t in DEC_T], seed, progress="C01")


def run_case(case):
    if case.get("decimal"):
        return judge_decimal(case["method"], case["t"], tuple(case["pop"]), bool(case.get("f32")))
    cfg = case["cfg"]
    g = s1.grid(cfg)
    memo = {}

    MUTATED["flag"] = False

    def getobs(idx):
        if idx not in memo:
            memo[idx] = s1.observe(cfg, [g[i] for i in idx])
            MUTATED["flag"] = MUTATED["flag"] or memo[idx].get("mutated")
        return memo[idx]

    return judge_one(cfg, getobs, case["kind"], case["spec"])[0]
