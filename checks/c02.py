"""C02 -- assorter means exceed 1/2 exactly when the reported winners really won (S2: mark-vector ballot lattice)."""
import itertools
import warnings
from fractions import Fraction as F

import numpy as np

from shangrla.core.Audit import CVR, Assertion, Audit, Contest
from shangrla.core.NonnegMean import NonnegMean

from vmc import core

ID = "C02"
RULE = (
    "every multiset of at most B ballots over the alphabet {card lacking the contest} + {each of m candidates absent / "
    "falsy / truthy}, grown one ballot at a time; for every winner set of size 1..m-1 (plurality and approval) and every "
    "single winner x share f in {1/3,1/2,2/3,3/4} (super-majority), style on and off: (i) all pairwise assorter means "
    "> 1/2 iff every winner has strictly more marks than every loser (reference tally by counting); (ii) super-majority "
    "mean > 1/2 iff W > f V with V = ballots with exactly one mark; (iii) every assort value in [0, upper bound], no "
    "exception; (iv) margin from Contest.tally + find_margin_from_tally equals 2*mean-1 over the same cards, and so does the "
    "margin from a tally handed to find_margin_from_tally while the contest's own tally is absent or stale.  A second "
    "sweep replaces the canonical True/False by truthy (True,1,5,'marked',NaN,numpy 1/True,'0',-1,0.5) and falsy (False,0,'',None,0.0,numpy 0/False) "
    "encodings (each truthy value with False, each falsy value with True, and a diagonal of other pairs).  Plus profiles of 1,500 / 12,000 (thorough: 70,000) ballots for 3 candidates whose front-runners are 3 votes apart, tied, or 2 apart the other way.  Non-trivial = profile with a tie, an overvote or an exact-threshold super-majority; distinct = distinct "
    "(m, profile) with such a feature"
)
ASSUMPTIONS = [
    "super-majority thresholds are decided with the exact rational share (1/3, 1/2, 2/3, 3/4); at an exact threshold W = f V the mean must be within 1e-9 of 1/2, elsewhere on the correct side by more than 1e-12",
    "means are recomputed exactly (Fractions) from the per-ballot values the assorter returns; 1e-12 slack at exact thresholds",
    "tally-based margins with enforce_rules=True are only compared on profiles without overvotes for vote-for-k plurality (the plurality assorter does not judge validity); for approval contests, where any number of marks is valid, on every profile",
    "profiles with no card under the style filter are outside the quantifier (mean of nothing)",
]
REQUIRE_VAC = ["profiles_of_thousands_of_ballots", "profiles_with_tie", "profiles_with_overvote", "exact_threshold_supermajority", "ballots_lacking_contest", "encoding_sweep_cases"]
PLAN = {"quick": [(2, 5), (3, 3)], "thorough": [(2, 8), (3, 5), (4, 3)]}
ENC_PLAN = {"quick": [(2, 2), (3, 2)], "thorough": [(2, 3), (3, 2), (4, 1)]}
SHARES = [1 / 3, 1 / 2, 2 / 3, 3 / 4]
SHARE_EXACT = {1 / 3: F(1, 3), 1 / 2: F(1, 2), 2 / 3: F(2, 3), 3 / 4: F(3, 4)}  # the shares meant; floats differ by < 1e-16
NAMES = ["A", "B", "C", "D"]
CID = "c1"
# "@..." tokens name encodings that JSON cannot carry; _dec turns them into the values
TRUTHY = [True, 1, 5, "marked", "@nan", "@np.int64(1)", "@np.True_", "0", -1, 0.5]
FALSY = [False, 0, "", None, 0.0, "@np.False_", "@np.int64(0)"]
_SPECIAL = {"@nan": float("nan"), "@np.int64(1)": np.int64(1), "@np.True_": np.True_, "@np.False_": np.False_, "@np.int64(0)": np.int64(0)}


# every truthy value with False, every falsy value with True, and a diagonal pairing each truthy value with another falsy one
ENC_PAIRS = [(t, False) for t in TRUTHY] + [(True, f) for f in FALSY[1:]] + [(t, FALSY[1 + i % (len(FALSY) - 1)]) for i, t in enumerate(TRUTHY[1:])]


def _dec(x):
    return _SPECIAL[x] if isinstance(x, str) and x in _SPECIAL else x



def bounds(tier):
    return {"(candidates, max ballots)": PLAN[tier], "encoding sweep (candidates, max ballots)": ENC_PLAN[tier], "shares": ["1/3", "1/2", "2/3", "3/4"],
            "winner_sets": "all sizes 1..m-1", "style": [True, False]}


def alphabet(m):
    """None = lacks the contest; else tuple over candidates of 0 absent / 1 falsy / 2 truthy"""
    return [None] + list(itertools.product((0, 1, 2), repeat=m))


def make_cvr(i, b, t=True, f=False):
    # every card also carries an unrelated earlier contest "c0" (overvoted on even cards): tallies of one contest
    # must not depend on what the card shows in another
    c0 = {"A": True, "B": True} if i % 2 == 0 else {"A": True}
    t, f = _dec(t), _dec(f)
    if b is None:
        return CVR(id=f"b{i}", votes={"c0": c0, "other": {"X": True}})
    v = {}
    for c, s in enumerate(b):
        if s == 1:
            v[NAMES[c]] = f
        elif s == 2:
            v[NAMES[c]] = t
    return CVR(id=f"b{i}", votes={"c0": c0, CID: v})


def contest(m, winners, kind, share=None, cards=0):
    kind = "".join(list(kind))  # the choice function as it comes out of a parser: an equal string, not the library's constant object
    return Contest.from_dict({
        "id": CID, "name": CID, "risk_limit": 0.05, "cards": cards, "choice_function": kind, "n_winners": len(winners),
        "share_to_win": share, "candidates": NAMES[:m], "winner": [NAMES[w] for w in winners],
        "audit_type": Audit.AUDIT_TYPE.POLLING, "test": NonnegMean.alpha_mart, "estim": None, "bet": None,
        "test_kwargs": {}, "g": 0.1, "use_style": True, "tally": None})


def exact_mean(vals):
    return sum((F(v) for v in vals), F(0)) / len(vals)


def judge(m, prof, enc=(True, False)):
    """all clauses for one profile; returns (violations, features)"""
    alpha = alphabet(m)
    ballots = [alpha[a] for a in prof]
    out, feats = [], set()
    with warnings.catch_warnings():
        warnings.simplefilter("ignore")
        cvrs = [make_cvr(i, b, *enc) for i, b in enumerate(ballots)]
        marks = [[1 if (b is not None and b[c] == 2) else 0 for c in range(m)] for b in ballots]
        has = [b is not None for b in ballots]
        tally = [sum(mk[c] for mk in marks) for c in range(m)]
        if any(not h for h in has):
            feats.add("ballots_lacking_contest")
        if any(sum(mk) > 1 for mk in marks):
            feats.add("profiles_with_overvote")
        if len(set(tally)) < m:
            feats.add("profiles_with_tie")
        for style in (True, False):
            pool = [i for i in range(len(ballots)) if (has[i] or not style)]
            if not pool:
                continue
            # ---------------- plurality / approval
            for k in range(1, m):
                for W in itertools.combinations(range(m), k):
                    Ls = [c for c in range(m) if c not in W]
                    for kind in (Contest.SOCIAL_CHOICE_FUNCTION.PLURALITY, Contest.SOCIAL_CHOICE_FUNCTION.APPROVAL):
                        con = contest(m, W, kind, cards=len(pool))
                        try:
                            asns = Assertion.make_plurality_assertions(con, winner=[NAMES[w] for w in W], loser=[NAMES[l] for l in Ls],
                                                                       test=NonnegMean.alpha_mart)
                        except Exception as e:  # noqa
                            out.append((f"C02|plurality|construction-exception|{type(e).__name__}", f"make_plurality_assertions raised {e}"))
                            continue
                        con.assertions = asns
                        if len(asns) != len(W) * len(Ls):
                            out.append(("C02|plurality|assertion-count", f"{len(asns)} assertions for {len(W)} winners and {len(Ls)} losers"))
                        all_gt = True
                        for w in W:
                            for l in Ls:
                                a = asns.get(f"{NAMES[w]} v {NAMES[l]}")
                                if a is None:
                                    out.append(("C02|plurality|missing-pair", f"no assertion '{NAMES[w]} v {NAMES[l]}'"))
                                    continue
                                try:
                                    vals = [a.assorter.assort(cvrs[i]) for i in pool]
                                except Exception as e:  # noqa
                                    out.append((f"C02|plurality|assort-exception|{type(e).__name__}", f"assort raised {type(e).__name__}: {e}"))
                                    all_gt = None
                                    continue
                                if any(not (0 <= v <= a.assorter.upper_bound) for v in vals):
                                    out.append(("C02|plurality|value-out-of-range", f"assorter value outside [0,{a.assorter.upper_bound}]: {vals}"))
                                want_vals = [F(marks[i][w] - marks[i][l] + 1, 2) for i in pool]
                                if [F(v) for v in vals] != want_vals:
                                    out.append(("C02|plurality|value", f"{NAMES[w]} v {NAMES[l]}: assorter values {vals}, definition {[float(x) for x in want_vals]}"))
                                mean = exact_mean(vals)
                                if all_gt is not None and not (mean > F(1, 2)):
                                    all_gt = False
                                fm = a.assorter.mean(cvrs, use_style=style)
                                if abs(fm - float(mean)) > 1e-12:
                                    out.append(("C02|mean-vs-values", f"Assorter.mean gives {fm}, exact mean of its own values is {float(mean)} (style {style})"))
                                # the same list object with one ballot replaced in place (a correction): the mean is that of the list as it is now
                                if len(pool) >= 2 and vals[0] != vals[-1]:
                                    lst = [cvrs[i] for i in pool]
                                    m_before = a.assorter.mean(lst, use_style=style)
                                    lst[0] = lst[-1]
                                    m_after = a.assorter.mean(lst, use_style=style)
                                    want_after = float(exact_mean(vals[1:] + vals[-1:]))
                                    if abs(m_after - want_after) > 1e-12:
                                        out.append(("C02|mean-of-a-list-changed-in-place", f"Assorter.mean of a list whose first ballot was replaced in place gives {m_after} (before the change {m_before}), "
                                                    f"the list now has mean {want_after}"))
                                # (iv) tally margins
                                for enforce in (False, True):
                                    # vote-for-k plurality: the assorter does not judge validity, so tallies under the rules are
                                    # compared on profiles without overvotes; approval has no overvotes: compared on every profile
                                    if enforce and kind == Contest.SOCIAL_CHOICE_FUNCTION.PLURALITY and any(sum(marks[i]) > k for i in pool):
                                        continue
                                    try:
                                        Contest.tally({"c0": contest(2, (0,), Contest.SOCIAL_CHOICE_FUNCTION.PLURALITY, cards=len(pool)), CID: con}, cvrs, enforce_rules=enforce)
                                        a.find_margin_from_tally()
                                        tm = a.margin
                                    except Exception as e:  # noqa
                                        out.append((f"C02|tally-margin|exception|{type(e).__name__}", f"tally / find_margin_from_tally raised {type(e).__name__}: {e}"))
                                        continue
                                    if abs(tm - float(2 * mean - 1)) > 1e-12:
                                        out.append((f"C02|tally-margin|{'approval' if kind == Contest.SOCIAL_CHOICE_FUNCTION.APPROVAL else 'plurality'}",
                                                    f"margin from tally {tm} but 2*mean-1 = {float(2*mean-1)} over the same {len(pool)} cards "
                                                    f"({kind}, {k} winner(s), enforce_rules={enforce}, style {style})"))
                                # a tally handed in by the caller, while the contest's own tally is absent or out of date
                                given = {NAMES[c]: tally_pool(marks, pool, c) for c in range(m)}
                                for own in (None, {NAMES[c]: 7 + c for c in range(m)}):
                                    con.tally = own
                                    try:
                                        a.find_margin_from_tally(dict(given))
                                        tm = a.margin
                                    except Exception as e:  # noqa
                                        out.append((f"C02|tally-margin|explicit|exception|{type(e).__name__}", f"find_margin_from_tally(tally) raised {type(e).__name__}: {e} (contest tally {own})"))
                                        continue
                                    if abs(tm - float(2 * mean - 1)) > 1e-12:
                                        out.append(("C02|tally-margin|explicit|plurality", f"margin from the given tally {given} is {tm} but 2*mean-1 = {float(2*mean-1)} (contest's own tally {own})"))
                        if all_gt is not None and kind == Contest.SOCIAL_CHOICE_FUNCTION.PLURALITY:
                            really = all(tally_pool(marks, pool, w) > tally_pool(marks, pool, l) for w in W for l in Ls)
                            if really != all_gt:
                                out.append(("C02|plurality|means-vs-outcome", f"winners {[NAMES[w] for w in W]}: all means > 1/2 is {all_gt} but 'every winner beats every loser' is {really} "
                                            f"(tally {[tally_pool(marks, pool, c) for c in range(m)]})"))
            # ---------------- super-majority
            for w in range(m):
                # one list of losers handed to every construction for this winner (a caller's list must survive the call)
                losers = [NAMES[c] for c in range(m) if c != w]
                for si, share in enumerate(SHARES):
                    con = contest(m, (w,), Contest.SOCIAL_CHOICE_FUNCTION.SUPERMAJORITY, share=(None if si == 2 else share), cards=len(pool))
                    try:
                        if si % 2 == 0:  # the share passed explicitly (for the third share: ONLY explicitly, the contest has none) ...
                            asns = Assertion.make_supermajority_assertion(con, share_to_win=share, winner=NAMES[w], loser=losers, test=NonnegMean.alpha_mart)
                        else:  # ... or left to the contest's own share_to_win
                            asns = Assertion.make_supermajority_assertion(con, winner=NAMES[w], loser=losers, test=NonnegMean.alpha_mart)
                        a = next(iter(asns.values()))
                        con.assertions = asns
                        vals = [a.assorter.assort(cvrs[i]) for i in pool]
                    except Exception as e:  # noqa
                        out.append((f"C02|supermajority|assort-exception|{type(e).__name__}", f"super-majority assorter raised {type(e).__name__}: {e}"))
                        continue
                    ub = a.assorter.upper_bound
                    if any(not (0 <= v <= ub) for v in vals):
                        out.append(("C02|supermajority|value-out-of-range", f"assorter value outside [0,{ub}]: {vals}"))
                    fs = SHARE_EXACT[share]
                    valid = [i for i in pool if sum(marks[i]) == 1]
                    V = len(valid)
                    Wv = sum(marks[i][w] for i in valid)
                    want_vals = [(F(marks[i][w]) / (2 * fs) if sum(marks[i]) == 1 else F(1, 2)) for i in pool]
                    if any(abs(float(x) - v) > 1e-12 for x, v in zip(want_vals, vals)):
                        out.append(("C02|supermajority|value", f"share {share}: assorter values {vals}, definition {[float(x) for x in want_vals]}"))
                    if abs(ub - float(1 / (2 * fs))) > 1e-12:
                        out.append(("C02|supermajority|upper-bound", f"upper bound {ub} for share {share}"))
                    mean = exact_mean(vals)
                    d = float(mean) - 0.5
                    if Wv > fs * V:
                        ok = d > 1e-12
                    elif Wv < fs * V:
                        ok = d < -1e-12
                    else:
                        ok = abs(d) <= 1e-9  # exact threshold: not above 1/2 (up to the rounding of the float share)
                        if V:
                            feats.add("exact_threshold_supermajority")
                    if not ok:
                        out.append(("C02|supermajority|mean-vs-outcome", f"share {share}: W={Wv}, V={V}: mean - 1/2 = {d}"))
                    fm = a.assorter.mean(cvrs, use_style=style)
                    if abs(fm - float(mean)) > 1e-12:
                        out.append(("C02|mean-vs-values", f"Assorter.mean gives {fm}, exact mean of its own values is {float(mean)} (style {style})"))
                    for enforce in (True, False):
                        if not enforce and any(sum(marks[i]) > 1 for i in pool):
                            continue
                        try:
                            Contest.tally({"c0": contest(2, (0,), Contest.SOCIAL_CHOICE_FUNCTION.PLURALITY, cards=len(pool)), CID: con}, cvrs, enforce_rules=enforce)
                            a.find_margin_from_tally()
                            tm = a.margin
                        except Exception as e:  # noqa
                            out.append((f"C02|tally-margin|exception|{type(e).__name__}", f"super-majority tally margin raised {type(e).__name__}: {e}"))
                            continue
                        if not (abs(tm - float(2 * mean - 1)) <= 1e-12):
                            out.append(("C02|tally-margin|supermajority", f"margin from tally {tm} but 2*mean-1 = {float(2*mean-1)} (cards {len(pool)}, valid {V}, winner {Wv}, "
                                        f"share {share}, enforce_rules={enforce})"))
                    given = {NAMES[c]: sum(marks[i][c] for i in valid) for c in range(m)}
                    for own in (None, {NAMES[c]: 7 + c for c in range(m)}):
                        con.tally = own
                        try:
                            a.find_margin_from_tally(dict(given))
                            tm = a.margin
                        except Exception as e:  # noqa
                            out.append((f"C02|tally-margin|explicit|exception|{type(e).__name__}", f"super-majority find_margin_from_tally(tally) raised {type(e).__name__}: {e} (contest tally {own})"))
                            continue
                        if not (abs(tm - float(2 * mean - 1)) <= 1e-12):
                            out.append(("C02|tally-margin|explicit|supermajority", f"margin from the given tally {given} is {tm} but 2*mean-1 = {float(2*mean-1)} (share {share}, contest's own tally {own})"))
    # de-duplicate keys (keep first message)
    seen, ded = set(), []
    for k, w in out:
        if k not in seen:
            seen.add(k)
            ded.append((k, w))
    return ded, feats


def judge_big_tally(cards, V, W, share):
    """margins from tallies of a large, close contest (the tally is given, no cards are built): the sign and value of the
    margin are those of 2*mean-1 computed from the same counts"""
    out = []
    fs = SHARE_EXACT[share]
    con = contest(3, (0,), Contest.SOCIAL_CHOICE_FUNCTION.SUPERMAJORITY, share=share, cards=cards)
    con.tally = {"A": W, "B": V - W, "C": 0}
    a = next(iter(Assertion.make_supermajority_assertion(con, share_to_win=share, winner="A", loser=["B", "C"], test=NonnegMean.alpha_mart).values()))
    try:
        a.find_margin_from_tally()
    except Exception as e:  # noqa
        return [(f"C02|tally-margin|exception|{type(e).__name__}", f"{type(e).__name__}: {e}")]
    want = (F(W) / fs - V) / cards
    def off(got, w):  # exact tie: within rounding of 0; otherwise the right sign and the right value
        if w == 0:
            return abs(got) > 1e-12
        return (w > 0) != (got > 0) or abs(got - float(w)) > 1e-9 * abs(float(w))

    if off(a.margin, want):
        out.append(("C02|tally-margin|supermajority", f"cards {cards}, valid {V}, winner {W}, share {share}: margin from tally {a.margin!r}, 2*mean-1 = {float(want)!r}"))
    conp = contest(3, (0,), Contest.SOCIAL_CHOICE_FUNCTION.PLURALITY, cards=cards)
    conp.tally = {"A": W, "B": V - W, "C": 0}
    ap = Assertion.make_plurality_assertions(conp, winner=["A"], loser=["B", "C"], test=NonnegMean.alpha_mart)["A v B"]
    ap.find_margin_from_tally()
    wantp = F(W - (V - W), cards)
    if off(ap.margin, wantp):
        out.append(("C02|tally-margin|plurality", f"cards {cards}, A {W}, B {V - W}: margin from tally {ap.margin!r}, (A-B)/cards = {float(wantp)!r}"))
    return out


def big_tally_cases():
    for cards, V in ((200000, 180000), (10 ** 6, 10 ** 6), (3 * 10 ** 6, 2400000)):
        for share in (1 / 2, 3 / 4):
            thr = int(SHARE_EXACT[share] * V)
            for W in (thr - 2, thr - 1, thr, thr + 1, thr + 2, thr + 20, V // 2 - 1, V // 2, V // 2 + 1):
                if 0 <= W <= V:
                    yield cards, V, W, share


def tally_pool(marks, pool, c):
    return sum(marks[i][c] for i in pool)


def profiles(m, B, first):
    A = len(alphabet(m))
    if B == 0:
        return
    for rest in itertools.combinations_with_replacement(range(first, A), B - 1):
        yield (first,) + rest


def show(m, prof):
    al = alphabet(m)
    return ["<no contest>" if al[a] is None else {NAMES[c]: ("-", "falsy", "MARK")[s] for c, s in enumerate(al[a])} for a in prof]


def big_profile(m, n, variant):
    """n ballots of a few kinds for m = 3 candidates: two front-runners a handful of votes apart (variant 0: A ahead,
    1: exact tie, 2: B ahead), a third candidate, overvotes, blanks, falsy marks and cards without the contest"""
    al = alphabet(m)
    ix = {b: i for i, b in enumerate(al)}
    k = n // 100
    a = 40 * k + (3 if variant == 0 else 0)
    b = 40 * k + (2 if variant == 2 else 0)
    prof = [ix[(2, 0, 0)]] * a + [ix[(0, 2, 0)]] * b + [ix[(0, 0, 2)]] * (10 * k) + [ix[(2, 2, 0)]] * (3 * k) + [ix[(0, 0, 0)]] * (2 * k) + [ix[(1, 2, 1)]] * k
    prof += [ix[None]] * (n - len(prof))
    return tuple(sorted(prof))


def run_shard(sh, rec):
    if sh[0] == "bigprof":
        _, m, n, variant = sh
        prof = big_profile(m, n, variant)
        rec.state()
        rec.trans()
        rec.evals()
        rec.trace()
        rec.vac("profiles_of_thousands_of_ballots")
        v, feats = judge(m, prof)
        for key, what in v:
            rec.violate(key.replace("C02|", "C02|big|", 1), what[:300] + f" [{n} ballots]", {"bigprof": [m, n, variant]})
        return
    if sh[0] == "bigtally":
        for cards, V, W, share in big_tally_cases():
            rec.state()
            rec.trans()
            rec.evals(2)
            rec.vac("large_close_tallies")
            for key, what in judge_big_tally(cards, V, W, share):
                rec.violate(key, what, {"bigtally": [cards, V, W, share]})
        return
    if sh[0] == "enc":
        _, m, B, first = sh
        for prof in profiles(m, B, first):
            base = repr(judge_vals(m, prof, (True, False)))
            for t, f in ENC_PAIRS:
                if True:
                    rec.evals()
                    rec.vac("encoding_sweep_cases")
                    v, _ = judge(m, prof, (t, f))
                    for key, what in v:
                        rec.violate(key + "|encoding", what + f" [truthy={t!r} falsy={f!r}]", {"m": m, "profile": list(prof), "enc": [t, f]})
                    if repr(judge_vals(m, prof, (t, f))) != base:
                        rec.violate("C02|encoding-changes-values", f"assorter values change when marks are encoded as {t!r}/{f!r}",
                                    {"m": m, "profile": list(prof), "enc": [t, f]})
        return
    _, m, B, first = sh
    maxB = max(b for mm, b in PLAN_ACTIVE if mm == m)
    for prof in profiles(m, B, first):
        rec.state()
        rec.trans()
        v, feats = judge(m, prof)
        rec.evals()
        for ft in feats:
            rec.vac(ft)
        if feats & {"profiles_with_tie", "profiles_with_overvote", "exact_threshold_supermajority"}:
            rec.outcome((m, prof))
        rec.observe((m, prof, [k for k, _ in v]))
        if B == maxB:
            rec.trace()
        for key, what in v:
            rec.violate(key, what, {"m": m, "profile": list(prof), "enc": [True, False]})
        if rec.want_sample((m, prof)):
            rec.sample({"candidates": m, "ballots": show(m, prof), "features": sorted(feats)})


def judge_vals(m, prof, enc):
    """all per-ballot assorter values for one winner choice (encoding sweep comparison)"""
    alpha = alphabet(m)
    cvrs = [make_cvr(i, alpha[a], *enc) for i, a in enumerate(prof)]
    out = []
    con = contest(m, (0,), Contest.SOCIAL_CHOICE_FUNCTION.PLURALITY, cards=len(cvrs))
    for a in Assertion.make_plurality_assertions(con, winner=[NAMES[0]], loser=NAMES[1:m], test=NonnegMean.alpha_mart).values():
        out.append([a.assorter.assort(c) for c in cvrs])
    for share in SHARES:
        con = contest(m, (0,), Contest.SOCIAL_CHOICE_FUNCTION.SUPERMAJORITY, share=share, cards=len(cvrs))
        try:
            a = next(iter(Assertion.make_supermajority_assertion(con, share_to_win=share, winner=NAMES[0], loser=NAMES[1:m], test=NonnegMean.alpha_mart).values()))
            out.append([a.assorter.assort(c) for c in cvrs])
        except Exception as e:  # noqa
            out.append(type(e).__name__)
    return out


PLAN_ACTIVE = PLAN["quick"]


def explore(tier, seed):
    global PLAN_ACTIVE
    PLAN_ACTIVE = PLAN[tier]
    sh = [("bigtally",)]
    for m, maxB in PLAN[tier]:
        for B in range(1, maxB + 1):
            for first in range(len(alphabet(m))):
                sh.append(("prof", m, B, first))
    for m, maxB in ENC_PLAN[tier]:
        for B in range(1, maxB + 1):
            for first in range(len(alphabet(m))):
                sh.append(("enc", m, B, first))
    for n in ((1500, 12000) if tier == "quick" else (1500, 12000, 70000)):
        for variant in (0, 1, 2):
            sh.append(("bigprof", 3, n, variant))
    rec = core.pmap(run_shard, sh, seed, progress="C02")
    rec.state()  # the empty profile (root of the lattice; nothing to judge)
    return rec


def run_case(case):
    if "bigprof" in case:
        m, n, variant = case["bigprof"]
        return [(k.replace("C02|", "C02|big|", 1), w) for k, w in judge(m, big_profile(m, n, variant))[0]]
    if "bigtally" in case:
        return judge_big_tally(*case["bigtally"])
    enc = tuple(case.get("enc", [True, False]))
    v, _ = judge(case["m"], tuple(case["profile"]), enc)
    if enc != (True, False):
        v = [(k + "|encoding", w) for k, w in v]
        if repr(judge_vals(case["m"], tuple(case["profile"]), enc)) != repr(judge_vals(case["m"], tuple(case["profile"]), (True, False))):
            v.append(("C02|encoding-changes-values", "assorter values change with the encoding"))
    return v
