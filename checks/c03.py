"""C03 -- comparison audits test the right null hypothesis: the overstatement reduction identity (S3 card lattice)."""
import warnings
from fractions import Fraction as F

import numpy as np

from vmc import core
from . import s3

ID = "C03"
RULE = (
    "every multiset of at most n cards over the alphabet (CVR content in {winner, loser, blank, overvote/third ranking, lacks "
    "contest}) x (manual record in the same set + unfindable) x (no tally pool, pooled pool P, pooled pool Q, unpooled pool "
    "label R) x (CVR is a phantom), grown card by card, x style on/off x assorter kind (plurality, super-majority 2/3, IRV "
    "NEB, IRV NEN built through make_assertions_from_json); the documented workflow pool_contests -> add_pool_contests -> "
    "set_tally_pool_means -> set_margin_from_cvrs -> overstatement_assorter is driven on fresh real objects (and, for "
    "populations with pooled cards, once more without the pool_contests/add_pool_contests step, so that a pooled batch holds "
    "cards of several styles; and once with the margins set by set_all_margins_from_cvrs for two contests, the other contest listed first and present on every other card; and once on assertion objects that were used before on an earlier version of the population, in which batch R was still pooled and the CVRs differed) and "
    "mean(B) - 1/2 is compared with (2 mean(A) - 1) / (2(2u - v)), A from the reference assorter (unfindable -> 0, missing "
    "contest under style -> 0), u, v and the pool means taken from the library's own attributes.  Non-trivial = state with "
    "a discrepancy, an unfindable card or a pooled card.  Plus one population of 1,500 / 12,000 (thorough: 70,000) cards per assorter kind: a pooled batch of 1,100 cards, a small one, discrepancies in both directions, unfindable cards and phantoms; distinct = distinct (kind, style, multiset)"
)
ASSUMPTIONS = ["relative/absolute tolerance 1e-9", "states with no card under audit (mean of nothing) are outside the quantifier and only counted"]
REQUIRE_VAC = ["populations_of_thousands_of_cards", "assertion_objects_used_before_on_an_earlier_population", "margins_set_for_two_contests_at_once", "states_with_pooled_phantom", "states_all_unfindable", "states_negative_margin", "states_with_discrepancy", "cards_dropped_by_style"]
PLAN = {"quick": {"full": 2, "reduced": 3}, "thorough": {"full": 3, "reduced": 4}}
BIG = {"quick": [1500, 12000], "thorough": [1500, 12000, 70000]}


def bounds(tier):
    return {"large populations (cards)": BIG[tier], "max cards, full alphabet": PLAN[tier]["full"], "max cards, reduced alphabet": PLAN[tier]["reduced"],
            "alphabet sizes": {k: [len(s3.alphabet(k)), len(s3.alphabet(k, True))] for k in s3.KINDS}, "style": [True, False], "kinds": s3.KINDS}


def judge(kind, cards, use_style, feats=None, add_pool=True, via_all=False, prior=False):
    try:
        w = s3.workflow(kind, cards, use_style, add_pool=add_pool, via_all=via_all, prior=prior)
    except Exception as e:  # noqa
        return [(f"C03|{kind}|workflow-exception|{type(e).__name__}", f"workflow raised {type(e).__name__}: {str(e)[:80]}")], None
    under = w["under"]
    if feats is not None and len(under) < len(cards):
        feats.add("cards_dropped_by_style")
    if not under:
        if feats is not None:
            feats.add("no_card_under_audit(skipped)")
        return [], None
    asn, cvrs, mvrs = w["asn"], w["cvrs"], w["mvrs"]
    u = asn.assorter.upper_bound
    v = asn.margin
    out = []
    if v is None or v != v:
        return [(f"C03|{kind}|margin-undefined", f"margin is {v} although {len(under)} cards are under audit")], None
    Bs, As = [], []
    cont = s3.contents(kind)
    for i in under:
        try:
            with warnings.catch_warnings():
                warnings.simplefilter("ignore")
                b = asn.overstatement_assorter(mvrs[i], cvrs[i], use_style=use_style)
        except Exception as e:  # noqa
            return [(f"C03|{kind}|overstatement-exception|{type(e).__name__}", f"overstatement_assorter raised {type(e).__name__}: {str(e)[:80]} for card {cards[i]}")], None
        Bs.append(float(b))
        cc, mc, p, ph = cards[i]
        if mc == "unfindable":
            a = F(0)
        elif cont[mc] is None:
            a = F(0) if use_style else s3.ref_assort(kind, None)
        else:
            a = s3.ref_assort(kind, cont[mc])
        As.append(a)
    meanB = sum(Bs) / len(Bs)
    meanA = sum(As, F(0)) / len(As)
    if any(b != b for b in Bs):
        return [(f"C03|{kind}|nan-overstatement-assorter", f"overstatement assorter is NaN for a card under audit (pool means {asn.assorter.tally_pool_means})")], None
    want = float(2 * meanA - 1) / (2 * (2 * u - v))
    got = meanB - 0.5
    if abs(got - want) > 1e-9 * max(1.0, abs(want)):
        out.append((f"C03|{kind}|identity|style={use_style}",
                    f"{kind}, style {use_style}: mean(B)-1/2 = {got} but (2 mean(A)-1)/(2(2u-v)) = {want} (u={u}, v={v}, mean(A)={float(meanA)}, "
                    f"pool means {asn.assorter.tally_pool_means})"))
    if abs(u - float(s3.ref_upper(kind))) > 1e-12:
        out.append((f"C03|{kind}|upper-bound", f"assorter upper bound {u}"))
    if feats is not None:
        if any(ph and p in ("P", "Q") for cc, mc, p, ph in cards):
            feats.add("states_with_pooled_phantom")
        if all(cards[i][1] == "unfindable" for i in under):
            feats.add("states_all_unfindable")
        if v < 0:
            feats.add("states_negative_margin")
        if any(cards[i][0] != cards[i][1] for i in under):
            feats.add("states_with_discrepancy")
    return out, (got, want, v)


def big_population(kind, n):
    """n cards of a few types: mostly agreeing winner / loser cards, a pooled batch of more than a thousand cards with
    mixed contents, a second small pooled batch, some discrepancies of each direction, a few unfindable cards and phantoms"""
    third = "third" if kind.startswith("irv") else "over"
    cards = []
    cards += [("win", "win", "P", False)] * 700 + [("lose", "lose", "P", False)] * 380 + [("blank", "win", "P", False)] * 7 + [("lacks", "lacks", "P", False)] * 40
    cards += [("lose", "win", "Q", False)] * 3 + [("win", "win", "Q", False)] * 5
    cards += [("win", "lose", None, False)] * 9 + [("lose", "win", None, False)] * 4 + [(third, "win", "R", False)] * 3 + [("win", "unfindable", None, False)] * 2
    cards += [("lacks", "unfindable", None, True)] * 3 + [("blank", "lacks", "P", True)] * 2
    rest = n - len(cards)
    cards += [("win", "win", None, False)] * (rest * 11 // 20) + [("lose", "lose", None, False)] * (rest * 8 // 20)
    cards += [("lacks", "lacks", None, False)] * (n - len(cards))
    return cards


def run_big(sh, rec):
    _, kind, n = sh
    cards = big_population(kind, n)
    rec.state()
    for style, add_pool, via_all in ((True, True, False), (False, True, False), (True, True, True)):
        feats = set()
        v, o = judge(kind, cards, style, feats, add_pool, via_all)
        rec.trans()
        rec.evals()
        rec.trace()
        rec.vac("populations_of_thousands_of_cards")
        rec.observe((kind, n, style, via_all, o))
        for key, what in v:
            rec.violate(key.replace("C03|", "C03|big|", 1), what[:300] + f" [population of {n} cards]", {"big": True, "kind": kind, "n": n, "style": style, "add_pool": add_pool, "via_all": via_all})


def run_shard(sh, rec):
    if sh[0] == "big":
        return run_big(sh, rec)
    kind, n, first, reduced, last = sh
    alpha = s3.alphabet(kind, reduced)
    for ms in s3.multisets(len(alpha), n, first):
        cards = [alpha[a] for a in ms]
        rec.state()
        rec.trans()
        for style, add_pool, via_all, prior in ((True, True, False, False), (False, True, False, False), (True, False, False, False), (False, False, False, False),
                                                (True, True, True, False), (False, True, True, False), (True, True, False, True), (False, True, False, True)):
            if not add_pool and not any(c[2] in ("P", "Q") for c in cards):
                continue  # nothing is pooled: the preparation step changes nothing
            if prior and not any(c[2] == "R" for c in cards):
                continue  # the earlier use differs only in batch R
            feats = set()
            v, o = judge(kind, cards, style, feats, add_pool, via_all, prior)
            if prior:
                rec.vac("assertion_objects_used_before_on_an_earlier_population")
            if not add_pool:
                rec.vac("states_without_add_pool_contests")
            if via_all:
                rec.vac("margins_set_for_two_contests_at_once")
            rec.evals()
            for f in feats:
                rec.vac(f)
            rec.observe((kind, ms, reduced, style, add_pool, via_all, prior, o))
            if feats & {"states_with_pooled_phantom", "states_with_discrepancy", "states_all_unfindable"}:
                rec.outcome((kind, style, reduced, ms))
            if last:
                rec.trace()
            for key, what in v:
                rec.violate(key, what, {"kind": kind, "cards": [list(c) for c in cards], "style": style, "add_pool": add_pool, "via_all": via_all, "prior": prior})
            if rec.want_sample((kind, ms, reduced, style)):
                rec.sample({"assorter": kind, "style": style, "cards": s3.show(kind, cards), "mean(B)-1/2, identity rhs, margin": o})


def explore(tier, seed):
    pl = PLAN[tier]
    sh = []
    for kind in s3.KINDS:
        for n in range(1, pl["full"] + 1):
            for first in range(len(s3.alphabet(kind))):
                sh.append((kind, n, first, False, n == pl["full"]))
        for n in range(pl["full"] + 1, pl["reduced"] + 1):
            for first in range(len(s3.alphabet(kind, True))):
                sh.append((kind, n, first, True, n == pl["reduced"]))
    for kind in s3.KINDS:
        for n in BIG[tier]:
            sh.append(("big", kind, n))
    return core.pmap(run_shard, sh, seed, progress="C03")


def run_case(case):
    if case.get("big"):
        v = judge(case["kind"], big_population(case["kind"], case["n"]), case["style"], None, case["add_pool"], case["via_all"])[0]
        return [(k.replace("C03|", "C03|big|", 1), w) for k, w in v]
    return judge(case["kind"], [tuple(c) for c in case["cards"]], case["style"], None, case.get("add_pool", True), case.get("via_all", False), case.get("prior", False))[0]
