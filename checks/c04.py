"""C04 -- RAIRE assertions, if any, are true of the CVRs and exclude every other winner (S2 ballot-profile lattice)."""
from vmc import core
from vmc.ref import raire as R
from . import s2r

ID = "C04"
RULE = (
    "two families of ballot profiles: (i) every multiset of at most B ballots over the alphabet {every partial ranking of the n candidates, blank, card "
    "lacking the contest}, grown one ballot at a time, x every reported winner (right or wrong) x both shipped difficulty "
    "functions; the returned list is judged against a brute-force reference (universe of all true NEB/NEN assertions "
    "with recounted tallies; all n! elimination orders).  Every state of size < B is additionally executed with the "
    "ballots supplied in reverse order (differential pass), and every non-empty answer is asked for again with a non-default search gap (agap 0.5 and 3: "
    "the result may be harder to audit, never untrue or insufficient).  Non-trivial = run returning a non-empty list; distinct = "
    "distinct (n, winner, function, returned assertion set)"
)
ASSUMPTIONS = [
    "total auditable ballots = number of cards that contain the contest (blank included)",
    "oracle self-check: whenever the reported winner is not the unique possible IRV winner (all tie-breaks) the universe of true assertions must be insufficient",
]
REQUIRE_VAC = ["nonempty_results", "empty_results", "wrong_winner_runs", "profiles_with_tie", "results_with_NEN", "runs_with_search_gap", "search_gap_changes_result"]

PLAN = {"quick": [(2, 6), (3, 5), (4, 2)], "thorough": [(2, 8), (3, 7), (4, 3), (5, 2)]}


def bounds(tier):
    return {"weighted families (name: candidates, #types, max distinct types, weights)": {k: [v[0], len(v[1]), v[2], list(v[3])] + ([{"added to every profile": f"{len(v[4][0])} single-choice types with weights from {list(v[4][1])}"}] if len(v) > 4 else []) for k, v in s2r.families(tier).items()},
            "(candidates, max ballots)": PLAN[tier], "alphabet_sizes": {n: len(R.rankings(n)) + 1 for n, _ in PLAN[tier]},
            "winners": "all", "difficulty_functions": ["bp_estimate", "cp_estimate"]}


AGAPS = (0.5, 3.0)


def judge(n, prof, winner, kind, norm, ana=None):
    out = []
    if isinstance(norm, tuple) and norm and norm[0] in ("exc", "notalist"):
        return [(f"C04|exception|{norm[1].split(':')[0]}", f"compute_raire_assertions raised / returned {norm[1]}")]
    ana = ana or R.analyse(n, prof, winner, kind)
    real = [a for a in norm if a is not None and a[0] in ("NEB", "NEN")]
    if any(a is None for a in norm):
        out.append(("C04|none-in-result", f"returned list contains None (n={n}): {[s2r.show_assertion(a) for a in norm]}"))
    if any(a is not None and a[0] == "unknown" for a in norm):
        out.append(("C04|unknown-object-in-result", "returned list contains an object that is neither NEB nor NEN"))
    for a in real:
        k = s2r.akey(a)
        if k not in ana["true"]:
            out.append((f"C04|false-assertion|{a[0]}", f"returned assertion does not hold on the CVRs: {s2r.show_assertion(a)}"))
            continue
        tw, tl, _ = ana["true"][k]
        rw, rl = (a[3], a[4]) if a[0] == "NEB" else (a[4], a[5])
        if (rw, rl) != (tw, tl):
            out.append((f"C04|tallies-misreported|{a[0]}", f"{s2r.show_assertion(a)} but a recount gives {tw} v {tl}"))
    if norm:
        O = ana["orders"]
        for k in ana["alt"]:
            if not any(R.contradicts(s2r.akey(a), O[k]) for a in real):
                out.append(("C04|alternative-not-excluded",
                            f"elimination order {'<'.join(s2r.NAMES[c] for c in O[k])} (winner last) is contradicted by no returned assertion"))
                break
    elif ana["possible"]:
        out.append(("C04|empty-although-audit-possible", "returned [] but the true assertions can exclude every alternative winner"))
    return out


def run_shard(sh, rec):
    if sh[0] == "wt":
        _, fam, first, part, parts = sh
        n, types, K, W, *base = s2r.families(TIER_ACTIVE)[fam]
        gen = s2r.weighted_profiles(types, K, W, first, part, parts, *base)
        B, maxB, weighted = None, None, True
    else:
        n, B, first = sh
        gen = s2r.profiles(n, B, first)
        maxB = max(b for m, b in PLAN_ACTIVE if m == n)
        weighted = False
    alpha = list(R.rankings(n)) + [None]
    for prof in gen:
        rec.state()
        rec.trans()  # canonical extension of its (sorted) parent
        ballots = [alpha[a] for a in prof]
        pw = R.irv_possible_winners(n, ballots)
        if len(pw) > 1:
            rec.vac("profiles_with_tie")
        if weighted:  # reported winner: the real one (wrong winners are covered by the multiset family)
            rec.vac("weighted_profiles")
            winners = [min(pw)]
        else:
            winners = range(n)
        for winner in winners:
            for kind in ("bp", "cp"):
                norm, _, _ = s2r.call_raire(n, prof, winner, kind)
                rec.evals()
                ana = R.analyse(n, prof, winner, kind)
                if pw != {winner}:
                    rec.vac("wrong_winner_runs")
                    if ana["possible"]:
                        raise AssertionError(f"oracle self-check failed: n={n} prof={prof} winner={winner}")
                v = judge(n, prof, winner, kind, norm, ana)
                rec.observe((n, prof, winner, kind, norm))
                if isinstance(norm, list) and norm:
                    rec.vac("nonempty_results")
                    rec.outcome((n, winner, kind, sorted(map(repr, norm))))
                    if any(a is not None and a[0] == "NEN" for a in norm):
                        rec.vac("results_with_NEN")
                else:
                    rec.vac("empty_results")
                for key, what in v:
                    rec.violate(key, what, {"n": n, "profile": list(prof), "winner": winner, "kind": kind, "reverse": False})
                if isinstance(norm, list) and norm and (weighted or len(prof) < maxB or n <= 3):
                    # a non-default search gap may return a harder set, never an insufficient or untrue one
                    for agap in (AGAPS if (TIER_ACTIVE == "thorough" or n <= 3) else (AGAPS[sum(prof) % 2],)):
                        norm3, _, _ = s2r.call_raire(n, prof, winner, kind, agap=agap)
                        rec.evals()
                        rec.trans()
                        rec.vac("runs_with_search_gap")
                        if repr(norm3) != repr(norm):
                            rec.vac("search_gap_changes_result")
                        for key, what in judge(n, prof, winner, kind, norm3, ana):
                            rec.violate(key + "|agap", what + f" [agap={agap}]", {"n": n, "profile": list(prof), "winner": winner, "kind": kind, "reverse": False, "agap": agap})
                if not weighted and len(prof) < maxB:
                    norm2, _, _ = s2r.call_raire(n, prof, winner, kind, reverse=True)
                    rec.evals()
                    rec.trans()
                    rec.vac("differential_runs")
                    if repr(norm2) != repr(norm) and sorted(map(repr, norm2)) != sorted(map(repr, norm)):
                        rec.violate("C04|result-depends-on-ballot-order", "result changes when the same ballots are supplied in reverse order",
                                    {"n": n, "profile": list(prof), "winner": winner, "kind": kind, "reverse": True})
                if weighted or B == maxB:
                    rec.trace()
                if rec.want_sample((n, prof, winner, kind)):
                    rec.sample({"candidates": n, "ballots": s2r.show_profile(n, prof), "reported_winner": s2r.NAMES[winner], "difficulty": kind,
                                "returned": [s2r.show_assertion(a) for a in norm] if isinstance(norm, list) else norm,
                                "audit_possible_per_reference": ana["possible"]})


PLAN_ACTIVE = PLAN["quick"]
TIER_ACTIVE = "quick"


def explore(tier, seed):
    global PLAN_ACTIVE, TIER_ACTIVE
    PLAN_ACTIVE = PLAN[tier]
    TIER_ACTIVE = tier
    return core.pmap(run_shard, s2r.weighted_shards(tier) + s2r.shards(PLAN[tier]), seed, progress="C04")


def run_case(case):
    n, prof, winner, kind = case["n"], tuple(case["profile"]), case["winner"], case["kind"]
    if case.get("agap") is not None:
        norm3, _, _ = s2r.call_raire(n, prof, winner, kind, agap=case["agap"])
        return [(k + "|agap", w) for k, w in judge(n, prof, winner, kind, norm3)]
    norm, _, _ = s2r.call_raire(n, prof, winner, kind)
    out = judge(n, prof, winner, kind, norm)
    if case.get("reverse"):
        norm2, _, _ = s2r.call_raire(n, prof, winner, kind, reverse=True)
        if sorted(map(repr, norm2)) != sorted(map(repr, norm)):
            out.append(("C04|result-depends-on-ballot-order", "result changes when the same ballots are supplied in reverse order"))
    return out
