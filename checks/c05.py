"""C05 -- non-anticipation: the p-value after j draws depends only on those j draws (every edge of the S1 trie)."""
import itertools

from vmc import core
from . import s1

ID = "C05"
RULE = (
    "every edge x -> x.a of the draw-prefix trie (all samples, all cut points, all one-step changes of the tail; by "
    "induction over the trie all replacement tails); for each sibling group {x.a}: the first n history entries agree "
    "across all a and extend history(x) (whose own last entry may only be lower, and only if sum(x) > N t exactly), "
    "and estim(x.a) / bet(x.a) agree across all a in every position and extend estim(x) / bet(x). Non-trivial = "
    "sibling group whose shared history prefix has an entry strictly between 0 and 1; distinct = distinct "
    "(configuration, shared prefix)"
)
ASSUMPTIONS = [
    "relative tolerance 1e-12 (the computations are sequential; real anticipation is O(1) on a grid)",
    "NaN compares equal to NaN here (NaN itself is C11's business)",
]
REQUIRE_VAC = ["sibling_groups", "strict_lowering_edges", "estimator_vectors_compared"]
REL = 1e-12


def bounds(tier):
    cfgs = s1.configs(tier)
    ut = s1.ulp_tie_configs(tier)
    return {"configurations": len(cfgs), "shapes(N,H,k)": sorted({(c["N"], c["H"], c["k"]) for c in cfgs}, key=str),
            "ulp_tie_family": f"{len(ut)} methods, N={ut[0]['N']}, t={ut[0]['t']}, {len(ut[0]['vals'])} values, all samples to length {ut[0]['D']}"}


def veq(a, b):
    return len(a) == len(b) and all(s1.feq(x, y, rel=REL, abs_=1e-300) for x, y in zip(a, b))


def judge_group(cfg, parent_idx, parent_obs, kids):
    """kids: list of (a, obs) for all children of parent_idx (parent may be () with parent_obs None)"""
    mk = s1.method_key(cfg)
    out = []
    n = len(parent_idx)
    ok = [(a, o) for a, o in kids if o["exc"] is None and o["hist"] is not None and len(o["hist"]) == n + 1]
    strict = False
    if len(ok) >= 2 and n >= 1:
        a0, o0 = ok[0]
        for a, o in ok[1:]:
            if not veq(o["hist"][:n], o0["hist"][:n]):
                out.append((f"C05|{mk}|history-depends-on-later-draw",
                            f"{mk}: first {n} history entries differ when only observation {n+1} changes "
                            f"({o0['hist'][:n]} vs {o['hist'][:n]})"))
                break
    if ok and n >= 1 and parent_obs is not None and parent_obs["exc"] is None and parent_obs["hist"] is not None \
            and len(parent_obs["hist"]) == n:
        hp = parent_obs["hist"]
        g = s1.grid(cfg)
        xs = [g[i] for i in parent_idx]
        over = cfg["N"] is not None and sum(xs) > cfg["N"] * s1.fr(cfg["t"])
        for a, o in ok:
            hc = o["hist"]
            if not veq(hc[: n - 1], hp[: n - 1]):
                out.append((f"C05|{mk}|truncation-changes-earlier-entries",
                            f"{mk}: truncating to {n} observations changes entries before the last"))
                break
            last_p, same_c = hp[n - 1], hc[n - 1]
            if s1.feq(last_p, same_c, rel=REL, abs_=1e-300):
                continue
            if last_p != last_p or same_c != same_c:
                continue  # NaN against a number: C11's business, nothing to compare
            if last_p == last_p and same_c == same_c and last_p < same_c and over:
                strict = True
                continue
            out.append((f"C05|{mk}|truncation-changes-last-entry",
                        f"{mk}: entry {n} is {last_p} for the truncated sample but {same_c} inside a longer one "
                        f"(sum exceeds N t: {over})"))
            break
    if any(o.get("stateful") for _, o in kids):
        out.append((f"C05|{mk}|instance-remembers-earlier-sample", f"{mk}: evaluating the same sample twice on one test object gives different p-values: the history depends on draws of an earlier evaluation"))
    if any(o.get("int_differs") for _, o in kids):
        out.append((f"C05|{mk}|integer-typed-prefix", f"{mk}: a whole-number sample passed as an integer array gets another history than the same draws as the prefix of a longer "
                    f"sample that contains a fraction (or as floats)"))
    if any(o.get("mutated") for _, o in kids):
        out.append((f"C05|{mk}|input-mutated", f"{mk}: test() changed the sample array it was given, so the next evaluation of the same draws sees other values"))
    # estimators / bets: the whole vector of the child is determined by the parent prefix
    for fld, nm in (("eta", "estimator"), ("lam", "bet")):
        vs = [(a, o[fld]) for a, o in kids if isinstance(o[fld], list) and len(o[fld]) == n + 1]
        if len(vs) >= 2:
            for a, v in vs[1:]:
                if not veq(v, vs[0][1]):
                    out.append((f"C05|{mk}|{nm}-anticipates", f"{mk}: {nm} sequence changes when only the last observation changes "
                                f"({vs[0][1]} vs {v})"))
                    break
        if vs and parent_obs is not None and isinstance(parent_obs[fld], list) and len(parent_obs[fld]) == n:
            if not veq(vs[0][1][:n], parent_obs[fld]):
                out.append((f"C05|{mk}|{nm}-not-prefix-stable", f"{mk}: {nm}(x.a)[:n] differs from {nm}(x)"))
    return out, strict, len(ok)


def run_cfg(cfg, rec):
    trie = s1.build_trie(cfg, rec)
    k1 = cfg["k"] + 1
    D = s1.depth(cfg)
    parents = [()] + [idx for idx in trie if len(idx) < D]
    for pidx in parents:
        kids = [(a, trie[pidx + (a,)]) for a in range(k1) if pidx + (a,) in trie]  # the long-path family is not a full tree
        if not kids:
            continue
        pobs = trie.get(pidx)
        v, strict, nok = judge_group(cfg, pidx, pobs, kids)
        rec.vac("sibling_groups")
        rec.vac("edges_compared", nok)
        if strict:
            rec.vac("strict_lowering_edges")
        if any(isinstance(o["eta"], list) or isinstance(o["lam"], list) for _, o in kids):
            rec.vac("estimator_vectors_compared", len(kids))
        shared = kids[0][1]["hist"][: len(pidx)] if kids[0][1]["hist"] else None
        rec.observe((s1.label(cfg), pidx, [o["hist"] for _, o in kids], [o["eta"] or o["lam"] for _, o in kids]))
        if shared and any(0 < h < 1 for h in shared):
            rec.outcome((s1.label(cfg), shared))
        for key, what in v:
            rec.violate(key, what, {"cfg": cfg, "parent": list(pidx)})
        if rec.want_sample((s1.label(cfg), pidx)):
            g = s1.grid(cfg)
            rec.sample({"config": s1.label(cfg), "prefix": [str(g[i]) for i in pidx],
                        "history_of_prefix": pobs["hist"] if pobs else None,
                        "children": {str(g[a]): o["hist"] for a, o in kids}})


def explore(tier, seed):
    return core.pmap(run_cfg, s1.configs(tier) + s1.long_configs(tier) + s1.bign_configs(tier) + s1.vlong_configs(tier) + s1.near_tie_configs(tier) + s1.ulp_tie_configs(tier), seed, progress="C05")


def run_case(case):
    cfg, pidx = case["cfg"], tuple(case["parent"])
    g = s1.grid(cfg)
    pobs = s1.observe(cfg, [g[i] for i in pidx]) if pidx else None
    kids = [(a, s1.observe(cfg, [g[i] for i in pidx + (a,)])) for a in range(len(g))]
    return judge_group(cfg, pidx, pobs, kids)[0]
