"""C06 -- data handed to a test always lie inside the bound the test is told (S3 card lattice x thresholds x audit types)."""
import contextlib
import io
import warnings

import numpy as np

from shangrla.core.Audit import CVR, Assertion, Audit, Contest
from shangrla.core.NonnegMean import NonnegMean

from vmc import core
from . import s3

ID = "C06"
RULE = (
    "every multiset of at most n cards of the S3 alphabet (in list order, sample numbers 1..n) x every position of the "
    "contest's sample-number threshold (0..n) x audit type (polling, card comparison, ONEAudit) x assorter (plurality, "
    "super-majority with share 1/3, 1/2, 2/3, 3/4, IRV NEB, IRV NEN) x style on/off; margins are whatever the CVR "
    "population produces (positive ones are judged, the others counted).  Real calls: the preparation workflow, "
    "mvrs_to_data (with a recording overstatement assorter), then set_p_values.  Oracle: every datum in [0,u] and not "
    "NaN; u = assorter bound (polling) or 2/(2 - v/u_a) (comparison/ONEAudit) and equal to assertion.test.u after "
    "set_p_values; under style exactly the cards whose CVR lists the contest and whose sample number is within the "
    "threshold contribute, in order.  A second pass keeps both assertions of a three-candidate plurality contest (different "
    "margins) and checks, after set_p_values, that each assertion's own test holds its own u.  Super-majority assertions are also built by calling the constructor directly, and plurality contests also by Contest.from_cvr_list (populations of <= 3 cards, style on/off: the cards feeding the assertions).  Non-trivial = case with data at both ends 0 and u attained or a card filtered out; "
    "distinct = distinct (kind, audit type, style, multiset, threshold)"
)
ASSUMPTIONS = ["the range test is exact (no tolerance): the bound and the largest possible datum are the same floating-point expression; 1e-12 relative on the value of u itself", "non-positive margins are outside the property's quantifier: counted, not judged",
               "set_p_values is only called when the contest has at least one datum"]
REQUIRE_VAC = ["unanimous_pool_cases", "contests_built_by_from_cvr_list", "supermajority_assertion_built_directly", "two_assertions_with_different_bounds", "datum_equal_0", "datum_equal_u", "cards_filtered_by_threshold", "cards_filtered_by_style", "pooled_cards_in_data", "set_p_values_calls"]
PLAN = {"quick": {"full": 2, "reduced": 2}, "thorough": {"full": 2, "reduced": 3}}
KINDS = ["plurality", "sm13", "sm12", "supermajority", "sm34", "irv_neb", "irv_nen"]
AUDITS = [Audit.AUDIT_TYPE.POLLING, Audit.AUDIT_TYPE.CARD_COMPARISON, Audit.AUDIT_TYPE.ONEAUDIT]


def bounds(tier):
    return {"max cards full alphabet": PLAN[tier]["full"], "max cards reduced alphabet": PLAN[tier]["reduced"], "kinds": KINDS, "audit types": AUDITS,
            "thresholds": "every position 0..n", "style": [True, False]}


def judge(kind, cards, style, audit_type, thr, feats=None, direct=False):
    try:
        w = s3.workflow(kind, cards, style, audit_type=audit_type, via_all=(thr % 2 == 1), direct=direct)
    except Exception as e:  # noqa
        return [(f"C06|{kind}|workflow-exception|{type(e).__name__}", f"preparation raised {type(e).__name__}: {str(e)[:80]}")], None
    if not w["under"]:
        return [], None
    asn, con, cvrs, mvrs = w["asn"], w["con"], w["cvrs"], w["mvrs"]
    v = asn.margin
    ua = asn.assorter.upper_bound
    if not (v == v) or v <= 0:
        if feats is not None:
            feats.add("nonpositive_margin(skipped)")
        return [], None
    con.sample_threshold = thr
    # both margin routes (per assertion / set_all_margins_from_cvrs) must leave the right bound in the test
    u_after_margin = ua if audit_type == Audit.AUDIT_TYPE.POLLING else 2 / (2 - v / ua)
    if abs(asn.test.u - u_after_margin) > 1e-12 * u_after_margin:
        return [(f"C06|{kind}|{audit_type}|u-after-setting-margin", f"after setting the margin from the CVRs test.u = {asn.test.u}, expected {u_after_margin} (margin {v})")], None
    seen = []
    orig = asn.overstatement_assorter

    def rec_oa(mvr=None, cvr=None, use_style=True):
        seen.append(cvr.id)
        return orig(mvr, cvr, use_style=use_style)

    asn.overstatement_assorter = rec_oa
    out = []
    try:
        with warnings.catch_warnings():
            warnings.simplefilter("ignore")
            d, u = asn.mvrs_to_data(mvrs, cvrs)
    except Exception as e:  # noqa
        return [(f"C06|{kind}|{audit_type}|mvrs_to_data-exception|{type(e).__name__}", f"mvrs_to_data raised {type(e).__name__}: {str(e)[:80]}")], None
    d = np.asarray(d, dtype=float)
    polling = audit_type == Audit.AUDIT_TYPE.POLLING
    want_u = ua if polling else 2 / (2 - v / ua)
    if abs(u - want_u) > 1e-12 * want_u:
        out.append((f"C06|{kind}|{audit_type}|returned-u", f"returned u = {u}, expected {want_u} (margin {v}, assorter bound {ua})"))
    if any(x != x for x in d):
        out.append((f"C06|{kind}|{audit_type}|nan-datum", f"data contain NaN: {d.tolist()}"))
    elif len(d) and (d.min() < 0 or d.max() > u):  # exact: a test that validates its data (wald_sprt) refuses a datum one ulp above u
        out.append((f"C06|{kind}|{audit_type}|datum-outside-[0,u]", f"data {d.tolist()} outside [0, {u}] (margin {v})"))
    if polling:
        if len(d) != len(mvrs):
            out.append((f"C06|{kind}|polling|data-length", f"{len(d)} data for {len(mvrs)} manual records"))
    else:
        if style:
            want_ids = [c.id for c in cvrs if c.has_contest(s3.CID) and c.sample_num <= thr]
        else:
            want_ids = [c.id for c in cvrs]
        if seen != want_ids or len(d) != len(want_ids):
            out.append((f"C06|{kind}|{audit_type}|contributing-cards|style={style}", f"data built from {seen} but the cards that list the contest within the threshold {thr} are {want_ids}"))
        if feats is not None:
            if style and any(c.has_contest(s3.CID) and c.sample_num > thr for c in cvrs):
                feats.add("cards_filtered_by_threshold")
            if style and any(not c.has_contest(s3.CID) for c in cvrs):
                feats.add("cards_filtered_by_style")
            if any(c.pool for c in cvrs if c.id in seen):
                feats.add("pooled_cards_in_data")
    if feats is not None and len(d):
        if d.min() == 0:
            feats.add("datum_equal_0")
        if abs(d.max() - u) <= 1e-12 * u:
            feats.add("datum_equal_u")
    if len(d) and not out:
        asn.overstatement_assorter = orig
        # the margin may have been set by other means than the CVR route (from tallies, by hand), which do not touch the
        # test, and the same objects may have served an audit of the other type before: leave the *other* type's bound in
        # the test (construction-time value for comparison, the comparison bound for polling) so that set_p_values itself
        # has to install u
        asn.test.u = 2 / (2 - v / ua) if polling else ua
        try:
            with contextlib.redirect_stdout(io.StringIO()), warnings.catch_warnings():
                warnings.simplefilter("ignore")
                Assertion.set_p_values({s3.CID: con}, mvrs, cvrs)
        except Exception as e:  # noqa
            return out + [(f"C06|{kind}|{audit_type}|set_p_values-exception|{type(e).__name__}", f"set_p_values raised {type(e).__name__}: {str(e)[:80]} on data {d.tolist()} u={u}")], None
        if feats is not None:
            feats.add("set_p_values_calls")
        tu = asn.test.u
        if abs(tu - want_u) > 1e-12 * want_u:
            out.append((f"C06|{kind}|{audit_type}|u-installed-in-test", f"assertion.test.u = {tu} after set_p_values, expected {want_u}"))
        if d.max() > tu:
            out.append((f"C06|{kind}|{audit_type}|datum-above-test-u", f"datum {d.max()} exceeds the bound {tu} the test was told"))
        if len(asn.p_history) != len(d):
            out.append((f"C06|{kind}|{audit_type}|history-length", f"{len(asn.p_history)} history entries for {len(d)} data"))
    return out, (d.tolist(), float(u))


def judge_from_cvr_list(cards, style):
    """contests built by the library's own Contest.from_cvr_list (from the tabulated CVRs and the audit's stratum), then
    the usual preparation: under style the cards feeding an assertion are those whose CVR lists the contest, without style
    every sampled card"""
    cvrs, mvrs = s3.build_cards("plurality", cards)
    if not any(c.has_contest(s3.CID) for c in cvrs):
        return [], None
    audit = Audit.from_dict({"strata": {"s": {"max_cards": len(cards), "use_style": style, "replacement": False}}})
    out = []
    try:
        with warnings.catch_warnings(), np.errstate(all="ignore"):
            warnings.simplefilter("ignore")
            votes = CVR.tabulate_votes(cvrs)
            ncards = CVR.tabulate_cards_contests(cvrs)
            cons = Contest.from_cvr_list(audit, votes, ncards, cvrs)
            if s3.CID not in cons:  # no vote at all in the contest: from_cvr_list has nothing to build it from
                return [], None
            con = cons[s3.CID]
            Assertion.make_all_assertions(cons)
            Assertion.set_all_margins_from_cvrs(audit, cons, cvrs)
            con.sample_threshold = len(cards) + 1
            for name, asn in con.assertions.items():
                seen = []
                orig = asn.overstatement_assorter

                def rec_oa(mvr=None, cvr=None, use_style=True, _seen=seen, _orig=orig):
                    _seen.append(cvr.id)
                    return _orig(mvr, cvr, use_style=use_style)

                asn.overstatement_assorter = rec_oa
                d, u = asn.mvrs_to_data(mvrs, cvrs)
                want_ids = [c.id for c in cvrs if (c.has_contest(s3.CID) or not style)]
                if seen != want_ids or len(d) != len(want_ids):
                    out.append((f"C06|from_cvr_list|contributing-cards|style={style}", f"contest built by Contest.from_cvr_list, style {style}: data of {name} built from {seen}, "
                                f"expected {want_ids} (contest.use_style = {con.use_style!r})"))
                    break
    except Exception as e:  # noqa
        return [(f"C06|from_cvr_list|exception|{type(e).__name__}", f"{type(e).__name__}: {str(e)[:100]}")], None
    return out, True


POOL_SHARES = (0.55, 0.6, 0.65, 0.7, 0.9, 1 / 3, 2 / 3, 3 / 4)


def judge_unanimous_pool(share, n, style):
    """ONEAudit, super-majority with the given share: a pooled batch of n cards that all show a valid vote for the winner (its
    mean is the assorter's bound 1/(2 share), generally not a binary fraction), three un-pooled cards for the loser; the
    manual record of one pooled card shows the loser.  Every datum must lie in [0, u] exactly."""
    cvrs = [CVR(id=f"p{i}", votes={s3.CID: {"A": True}}, tally_pool="P", pool=True, sample_num=i + 1) for i in range(n)]
    cvrs += [CVR(id=f"q{i}", votes={s3.CID: {"B": True}}, sample_num=n + i + 1) for i in range(3)]
    mvrs = [CVR(id=c.id, votes={k: dict(v) for k, v in c.votes.items()}) for c in cvrs]
    mvrs[0] = CVR(id="p0", votes={s3.CID: {"B": True}})
    for c in cvrs:
        c.sampled = True
    try:
        with contextlib.redirect_stdout(io.StringIO()), warnings.catch_warnings(), np.errstate(all="ignore"):
            warnings.simplefilter("ignore")
            con = Contest.from_dict({"id": s3.CID, "name": s3.CID, "risk_limit": 0.05, "cards": len(cvrs), "choice_function": Contest.SOCIAL_CHOICE_FUNCTION.SUPERMAJORITY,
                                     "n_winners": 1, "share_to_win": share, "candidates": ["A", "B"], "winner": ["A"], "audit_type": Audit.AUDIT_TYPE.ONEAUDIT,
                                     "test": NonnegMean.kaplan_wald, "g": 0.1, "use_style": style, "sample_threshold": 10 ** 9})
            Assertion.make_all_assertions({s3.CID: con})
            asn = next(iter(con.assertions.values()))
            audit = Audit.from_dict({"strata": {"s": {"max_cards": len(cvrs), "use_style": style, "replacement": False}}})
            asn.assorter.set_tally_pool_means(cvr_list=cvrs, tally_pools=None, use_style=style)
            asn.set_margin_from_cvrs(audit, cvrs)
            if not (asn.margin > 0):
                return []
            d, u = asn.mvrs_to_data(mvrs, cvrs)
            d = np.asarray(d, dtype=float)
    except Exception as e:  # noqa
        return [(f"C06|unanimous-pool|exception|{type(e).__name__}", f"{type(e).__name__}: {str(e)[:80]}")]
    if d.min() < 0 or d.max() > u:
        return [("C06|unanimous-pool|datum-outside-[0,u]", f"share {share}, pool of {n} cards all for the winner (pool mean {asn.assorter.tally_pool_means}, assorter bound "
                 f"{asn.assorter.upper_bound!r}): data min {d.min()!r}, max {d.max()!r}, u = {u!r}")]
    return []


def judge_tiny_margin(kind, audit_type, margin):
    """a margin set by hand (as from a tally of a very large, very close contest): set_p_values must install exactly
    2/(2 - v/u_a) over whatever bound the test held before, and an understated card's datum equals that bound"""
    cards = [("lose", "win", None, False), ("win", "win", None, False)]
    w = s3.workflow(kind, cards, True, audit_type=audit_type)
    asn, con, cvrs, mvrs = w["asn"], w["con"], w["cvrs"], w["mvrs"]
    ua = asn.assorter.upper_bound
    if margin > 2 * ua - 1:
        return []  # no population has such a margin (the assorter mean cannot exceed its bound)
    asn.margin = margin
    asn.test.u = ua
    con.sample_threshold = 2
    try:
        with contextlib.redirect_stdout(io.StringIO()), warnings.catch_warnings():
            warnings.simplefilter("ignore")
            d, u = asn.mvrs_to_data(mvrs, cvrs)
            Assertion.set_p_values({s3.CID: con}, mvrs, cvrs)
    except Exception as e:  # noqa
        return [(f"C06|{kind}|{audit_type}|set_p_values-exception|{type(e).__name__}", f"margin {margin}: {type(e).__name__}: {str(e)[:80]}")]
    want_u = 2 / (2 - margin / ua)
    out = []
    if asn.test.u != want_u and abs(asn.test.u - want_u) > 1e-15 * want_u:
        out.append((f"C06|{kind}|{audit_type}|u-installed-in-test", f"margin {margin}: assertion.test.u = {asn.test.u!r} after set_p_values, expected {want_u!r}"))
    if len(d) and max(d) > asn.test.u:
        out.append((f"C06|{kind}|{audit_type}|datum-above-test-u", f"margin {margin}: datum {max(d)!r} exceeds the bound {asn.test.u!r} the test was told"))
    return out


def judge_multi(cards, style, audit_type):
    """a plurality contest with its two assertions (A v B, A v C: different margins, different bounds): after
    set_p_values every assertion's own test holds that assertion's own u, and its data lie below it"""
    try:
        w = s3.workflow("plurality", cards, style, audit_type=audit_type, via_all=True, keep_all=True)
    except Exception as e:  # noqa
        return [(f"C06|multi|workflow-exception|{type(e).__name__}", f"{type(e).__name__}: {str(e)[:80]}")], None
    if not w["under"]:
        return [], None
    con, cvrs, mvrs = w["con"], w["cvrs"], w["mvrs"]
    margins = {k: a.margin for k, a in con.assertions.items()}
    if any(not (v == v) or v <= 0 for v in margins.values()):
        return [], None
    con.sample_threshold = len(cards)
    try:
        with contextlib.redirect_stdout(io.StringIO()), warnings.catch_warnings():
            warnings.simplefilter("ignore")
            Assertion.set_p_values({s3.CID: con}, mvrs, cvrs)
    except Exception as e:  # noqa
        return [(f"C06|multi|set_p_values-exception|{type(e).__name__}", f"{type(e).__name__}: {str(e)[:80]}")], None
    out = []
    for k, a in con.assertions.items():
        ua = a.assorter.upper_bound
        want_u = ua if audit_type == Audit.AUDIT_TYPE.POLLING else 2 / (2 - margins[k] / ua)
        if abs(a.test.u - want_u) > 1e-12 * want_u:
            out.append((f"C06|multi|{audit_type}|u-installed-in-test", f"assertion {k}: test.u = {a.test.u} after set_p_values, its own bound is {want_u} (margins {margins})"))
            break
        with warnings.catch_warnings():
            warnings.simplefilter("ignore")
            d, u = a.mvrs_to_data(mvrs, cvrs)
        if len(d) and max(d) > a.test.u:
            out.append((f"C06|multi|{audit_type}|datum-above-test-u", f"assertion {k}: datum {max(d)} above the bound {a.test.u} left in its test"))
            break
    return out, margins


def run_multi(sh, rec):
    _, n, first = sh
    alpha = s3.alphabet("plurality", False)
    for ms in s3.multisets(len(alpha), n, first):
        cards = [alpha[a] for a in ms]
        rec.state()
        for style in (True, False):
            for at in (Audit.AUDIT_TYPE.CARD_COMPARISON, Audit.AUDIT_TYPE.ONEAUDIT):
                v, margins = judge_multi(cards, style, at)
                rec.trans()
                rec.evals()
                if margins and len(set(margins.values())) > 1:
                    rec.vac("two_assertions_with_different_bounds")
                    rec.outcome(("multi", at, style, ms))
                rec.observe(("multi", ms, style, at, margins))
                for key, what in v:
                    rec.violate(key, what, {"multi": True, "cards": [list(c) for c in cards], "style": style, "audit_type": at})


def run_shard(sh, rec):
    if sh[0] == "tiny":
        for kind in KINDS:
            for at in (Audit.AUDIT_TYPE.CARD_COMPARISON, Audit.AUDIT_TYPE.ONEAUDIT):
                for margin in (1e-3, 1e-5, 3e-6, 1e-6, 1e-9, 1e-12) + tuple(k / 200 for k in range(1, 200)):  # tiny margins, and a grid of ordinary ones
                    rec.state()
                    rec.trans()
                    rec.evals(2)
                    rec.vac("tiny_margin_cases")
                    for key, what in judge_tiny_margin(kind, at, margin):
                        rec.violate(key, what, {"tiny": True, "kind": kind, "audit_type": at, "margin": margin})
        return
    if sh[0] == "pools":
        for share in POOL_SHARES:
            for n in range(1, 41):
                for style in (True, False):
                    rec.state()
                    rec.trans()
                    rec.evals()
                    rec.vac("unanimous_pool_cases")
                    for key, what in judge_unanimous_pool(share, n, style):
                        rec.violate(key, what, {"pools": True, "share": share, "n": n, "style": style})
        return
    if sh[0] == "fromcvrs":
        alpha = s3.alphabet("plurality", True)
        for n in (1, 2, 3):
            for ms in s3.multisets(len(alpha), n):
                cards = [alpha[a] for a in ms]
                rec.state()
                for style in (True, False):
                    v, ok = judge_from_cvr_list(cards, style)
                    rec.trans()
                    rec.evals()
                    if ok:
                        rec.vac("contests_built_by_from_cvr_list")
                    for key, what in v:
                        rec.violate(key, what, {"fromcvrs": True, "cards": [list(c) for c in cards], "style": style})
        return
    if sh[0] == "multi":
        return run_multi(sh, rec)
    kind, n, first, reduced, last = sh
    alpha = s3.alphabet("irv_neb" if kind.startswith("irv") else "plurality", reduced)
    for ms in s3.multisets(len(alpha), n, first):
        cards = [alpha[a] for a in ms]
        rec.state()
        for style in (True, False):
            for at in AUDITS:
                for thr in range(0, n + 1):
                    if (not style or at == Audit.AUDIT_TYPE.POLLING) and thr != n:
                        continue  # the threshold is only read under style in comparison audits
                    feats = set()
                    v, o = judge(kind, cards, style, at, thr, feats)
                    rec.trans()
                    rec.evals()
                    for f in feats:
                        rec.vac(f)
                    rec.observe((kind, ms, reduced, style, at, thr, o))
                    if feats & {"cards_filtered_by_threshold", "cards_filtered_by_style"} or {"datum_equal_0", "datum_equal_u"} <= feats:
                        rec.outcome((kind, at, style, reduced, ms, thr))
                    if last:
                        rec.trace()
                    for key, what in v:
                        rec.violate(key, what, {"kind": kind, "cards": [list(c) for c in cards], "style": style, "audit_type": at, "thr": thr})
                    if kind in s3.SM and thr == n and n <= 2:  # the same with the assertion built by calling the constructor directly
                        v2, o2 = judge(kind, cards, style, at, thr, None, direct=True)
                        rec.trans()
                        rec.evals()
                        rec.vac("supermajority_assertion_built_directly")
                        rec.observe((kind, ms, reduced, style, at, thr, "direct", o2))
                        for key, what in v2:
                            rec.violate(key + "|built-directly", what + " [assertion from make_supermajority_assertion without the share_to_win argument]",
                                        {"kind": kind, "cards": [list(c) for c in cards], "style": style, "audit_type": at, "thr": thr, "direct": True})
                    if rec.want_sample((kind, ms, reduced, style, at, thr)):
                        rec.sample({"assorter": kind, "audit_type": at, "style": style, "threshold": thr, "cards": s3.show(kind, cards), "data,u": o})


def explore(tier, seed):
    pl = PLAN[tier]
    sh = []
    for kind in KINDS:
        fam = "irv_neb" if kind.startswith("irv") else "plurality"
        for n in range(1, pl["full"] + 1):
            for first in range(len(s3.alphabet(fam))):
                sh.append((kind, n, first, False, n == pl["full"] and pl["reduced"] <= pl["full"]))
        for n in range(pl["full"] + 1, pl["reduced"] + 1):
            for first in range(len(s3.alphabet(fam, True))):
                sh.append((kind, n, first, True, n == pl["reduced"]))
    sh.append(("tiny",))
    sh.append(("fromcvrs",))
    sh.append(("pools",))
    for n in (1, 2):
        for first in range(len(s3.alphabet("plurality"))):
            sh.append(("multi", n, first))
    return core.pmap(run_shard, sh, seed, progress="C06")


def run_case(case):
    if case.get("tiny"):
        return judge_tiny_margin(case["kind"], case["audit_type"], case["margin"])
    if case.get("pools"):
        return judge_unanimous_pool(case["share"], case["n"], case["style"])
    if case.get("fromcvrs"):
        return judge_from_cvr_list([tuple(c) for c in case["cards"]], case["style"])[0]
    if case.get("multi"):
        return judge_multi([tuple(c) for c in case["cards"]], case["style"], case["audit_type"])[0]
    v = judge(case["kind"], [tuple(c) for c in case["cards"]], case["style"], case["audit_type"], case["thr"], None, bool(case.get("direct")))[0]
    return [(k + "|built-directly", w) for k, w in v] if case.get("direct") else v
