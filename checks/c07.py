"""C07 -- consistent sampling gives every contest the first cards of its own random order (S4, single round)."""
import itertools

from cryptorandom.cryptorandom import SHA256
from shangrla.core.Audit import CVR, Assertion, Audit, Contest
from shangrla.core.NonnegMean import NonnegMean

from vmc import core
from vmc.ref import sampling as RS
from . import s4

ID = "C07"
RULE = (
    "every list of n cards, each card's style any subset of k contests (empty included), every assignment of distinct "
    "sample numbers to list positions (n!), every size vector 0 <= n_c <= #cards listing c; for each the real "
    "consistent_sampling is compared with the reference (per contest the first n_c cards of its own sample-number order; "
    "union in sample-number order; thresholds; sampled flags) and, through prep_comparison_sample + mvrs_to_data with a "
    "recording overstatement assorter (manual records: copies of the CVR, unfindable cards and cards that do not list the "
    "CVR's contests, by list position), the cards that feed each contest's assertion must be exactly those n_c cards in "
    "order.  Every case is re-run with phantom flags and vote contents changed (selection must not move).  "
    "Plus lists of 40/90/150/1200 cards in which the second contest is on every 7th/12th/40th/400th card only.  assign_sample_nums is compared with an independent SHA-256 stream for a seed menu.  Non-trivial = case in which a "
    "card is skipped or serves two contests; distinct = distinct (styles, order, sizes, selection)"
)
ASSUMPTIONS = [
    "sample numbers are distinct (as the property states)",
    "the data clause is judged for contests with n_c >= 1 (with n_c = 0 there is no n_c-th card and no threshold)",
]
REQUIRE_VAC = ["cases_with_skipped_card", "cases_card_serves_two_contests", "size_zero_contests", "size_all_contests", "data_sequences_checked"]
PLAN = {"quick": [(2, 4)], "thorough": [(2, 5), (3, 4)]}  # (contests, max cards)
SEEDS = [0, 1, 12345678901234567890, "seed", "20 sided dice: 1 2 3", ""]


def bounds(tier):
    return {"(contests, max cards)": PLAN[tier], "sample-number assignments": "all n!", "size vectors": "all 0..available per contest", "seeds": SEEDS}


def size_vectors(ids, styles):
    avail = {c: sum(1 for s in styles if c in s) for c in ids}
    for v in itertools.product(*[range(avail[c] + 1) for c in ids]):
        yield dict(zip(ids, v)), avail


def run_real(ids, styles, nums, sizes, variant=0, data=False):
    n = len(styles)
    phant = [(i % 2 == 1) for i in range(n)] if variant else None
    cards = s4.make_cards(styles, nums, phantoms=phant, votes_variant=variant)
    cons = s4.make_contests(ids, sizes, cards_per={c: max(1, sum(1 for s in styles if c in s)) for c in ids})
    try:
        # the Contest objects were used before (an earlier draw with every card of every contest, on other card objects):
        # nothing of that draw may survive in the thresholds of this one
        for c in ids:
            cons[c].sample_size = sum(1 for s in styles if c in s)
        CVR.consistent_sampling(s4.make_cards(styles, nums), cons)
        # ... and the very list object that is about to be sampled was sampled before under other sample numbers (an
        # earlier seed): nothing of that order may survive either
        for c_, n_ in zip(cards, list(nums)[::-1]):
            c_.sample_num = n_
        CVR.consistent_sampling(cards, cons)
        for c_, n_ in zip(cards, nums):
            c_.sample_num = n_
            c_.sampled = False
        for c in ids:
            cons[c].sample_size = sizes[c]
            if sizes[c] == 0:
                cons[c].sample_threshold = None  # a contest without a sample has no threshold to compare
        sel = CVR.consistent_sampling(cards, cons)
    except Exception as e:  # noqa
        return {"exc": f"{type(e).__name__}: {str(e)[:60]}"}
    obs = {"exc": None, "sel": [int(i) for i in sel], "thr": {c: cons[c].sample_threshold for c in ids}, "flags": [bool(c.sampled) for c in cards]}
    if data:
        obs["data"] = {}
        cvr_sample = [cards[i] for i in sel]
        # manual records: a copy of the CVR, a card that cannot be found, or a card that turns out not to list the CVR's
        # contests -- which cards feed a contest's assertions is decided by the CVRs alone
        mvr_sample = [CVR(id=cards[i].id, votes={k: dict(v) for k, v in cards[i].votes.items()}, phantom=False) if i % 3 == 0 else
                      (CVR(id=cards[i].id, votes={}, phantom=True) if i % 3 == 1 else CVR(id=cards[i].id, votes={"unlisted": {"A": True}}, phantom=False))
                      for i in sel]
        sample_order = {cards[i].id: {"selection_order": pos, "serial": i + 1} for pos, i in enumerate(sel)}
        cvr_sample.reverse()  # arrive in some other order; prep_comparison_sample must restore selection order
        mvr_sample = mvr_sample[1:] + mvr_sample[:1]
        try:
            CVR.prep_comparison_sample(mvr_sample, cvr_sample, sample_order)
            for c in ids:
                if sizes[c] < 1:
                    continue
                con = cons[c]
                asn = next(iter(Assertion.make_plurality_assertions(con, winner=["A"], loser=["B"], test=NonnegMean.alpha_mart).values()))
                asn.margin = 0.5
                seen = []
                orig = asn.overstatement_assorter

                def rec_oa(mvr=None, cvr=None, use_style=True, _seen=seen, _orig=orig):
                    _seen.append((mvr.id, cvr.id))
                    return _orig(mvr, cvr, use_style=use_style)

                asn.overstatement_assorter = rec_oa
                d, u = asn.mvrs_to_data(mvr_sample, cvr_sample)
                obs["data"][c] = {"pairs": seen, "len": int(len(d))}
        except Exception as e:  # noqa
            obs["data_exc"] = f"{type(e).__name__}: {str(e)[:80]}"
    return obs


def judge(ids, styles, nums, sizes):
    cards = [(nums[i], frozenset(styles[i])) for i in range(len(styles))]
    want_sel, want_thr, per = RS.consistent_sample(cards, sizes)
    out = []
    obs = run_real(ids, styles, nums, sizes, 0, data=True)
    if obs["exc"]:
        return [(f"C07|exception|{obs['exc'].split(':')[0]}", f"consistent_sampling raised {obs['exc']}")], obs, want_sel
    if obs["sel"] != want_sel:
        if sorted(obs["sel"]) == sorted(want_sel):
            k = "C07|selection-order"
        elif len(set(obs["sel"])) != len(obs["sel"]):
            k = "C07|card-selected-twice"
        else:
            k = "C07|selection-set"
        out.append((k, f"selected {obs['sel']} but each contest's first n_c cards give {want_sel} (sizes {sizes})"))
    for c in ids:
        if sizes[c] >= 1 and obs["thr"][c] != want_thr[c]:
            out.append(("C07|threshold", f"contest {c}: threshold {obs['thr'][c]} but its {sizes[c]}-th card has sample number {want_thr[c]}"))
    want_flags = [i in set(want_sel) for i in range(len(styles))]
    if obs["flags"] != want_flags and obs["sel"] == want_sel:
        out.append(("C07|sampled-flags", f"sampled flags {obs['flags']} for selection {want_sel}"))
    if "data_exc" in obs:
        out.append((f"C07|data|exception|{obs['data_exc'].split(':')[0]}", f"prep_comparison_sample / mvrs_to_data raised {obs['data_exc']}"))
    elif obs["sel"] == want_sel and all(sizes[c] < 1 or obs["thr"][c] == want_thr[c] for c in ids):
        for c in ids:
            if sizes[c] < 1:
                continue
            got = obs["data"][c]
            want_ids = [f"card{i}" for i in per[c]]
            if [p[1] for p in got["pairs"]] != want_ids or got["len"] != len(want_ids):
                out.append(("C07|data|cards-feeding-assertion", f"contest {c}: data built from CVRs {[p[1] for p in got['pairs']]} but its first {sizes[c]} cards are {want_ids}"))
            elif any(p[0] != p[1] for p in got["pairs"]):
                out.append(("C07|data|mvr-cvr-misaligned", f"contest {c}: MVR/CVR pairs {got['pairs']}"))
    # variant: phantom flags and vote contents must not move the selection
    o2 = run_real(ids, styles, nums, sizes, 1)
    if o2["exc"] or o2["sel"] != obs["sel"] or o2["thr"] != obs["thr"]:
        out.append(("C07|selection-depends-on-contents", f"selection changes from {obs['sel']} to {o2.get('sel')} when only phantom flags / vote contents change"))
    return out, obs, want_sel


def run_shard(sh, rec):
    if sh[0] == "seeds":
        for seed in SEEDS:
            for n in (1, 2, 5):
                v = judge_seed(seed, n)
                rec.state()
                rec.trans()
                rec.evals(2)
                rec.vac("seed_cases")
                for key, what in v:
                    rec.violate(key, what, {"kind": "seed", "seed": seed, "n": n})
        return
    if sh[0] == "sparse":
        for styles, nums, sizes in sparse_cases():
            rec.state()
            rec.trans()
            rec.evals(2)
            rec.trace()
            rec.vac("sparse_large_lists")
            v, obs, want = judge(["c1", "c2"], styles, nums, sizes)
            for key, what in v:
                rec.violate(key, what[:400], {"kind": "sample", "ids": ["c1", "c2"], "styles": [list(s_) for s_ in styles], "nums": nums, "sizes": sizes})
        return
    _, k, n, first_style, first_num = sh
    ids = s4.CONTESTS[:k]
    menu = s4.style_menu(k)
    for rest in itertools.product(range(len(menu)), repeat=n - 1):
        styles = [menu[first_style]] + [menu[j] for j in rest]
        for perm in itertools.permutations(range(n)):
            if perm[0] != first_num:
                continue
            # the smallest sample number is 0; in the second numbering the numbers are huge and differ by 1 part in 10^18,
            # as hashed sample numbers are (far below any floating-point tolerance)
            nums = [10 * p for p in perm] if (sum(perm[:2]) + first_style) % 2 == 0 else [10 ** 18 + p for p in perm]
            rec.state()
            for sizes, avail in size_vectors(ids, styles):
                rec.trans()
                rec.evals(2)
                v, obs, want = judge(ids, styles, nums, sizes)
                rec.trace()
                rec.observe((styles, nums, sizes, obs.get("sel"), obs.get("thr")))
                order = sorted(range(n), key=lambda i: nums[i])
                if want:
                    last = max(order.index(i) for i in want)
                    if any(order.index(i) < last and i not in want for i in range(n)):
                        rec.vac("cases_with_skipped_card")
                        rec.outcome((styles, nums, tuple(sorted(sizes.items())), tuple(want)))
                    if any(sum(1 for c in ids if c in styles[i] and sizes[c] > 0) >= 2 for i in want):
                        rec.vac("cases_card_serves_two_contests")
                        rec.outcome((styles, nums, tuple(sorted(sizes.items())), tuple(want)))
                for c in ids:
                    if sizes[c] == 0:
                        rec.vac("size_zero_contests")
                    elif sizes[c] == avail[c]:
                        rec.vac("size_all_contests")
                    if sizes[c] >= 1:
                        rec.vac("data_sequences_checked")
                for key, what in v:
                    rec.violate(key, what, {"kind": "sample", "ids": ids, "styles": [list(s) for s in styles], "nums": nums, "sizes": sizes})
                if rec.want_sample((styles, nums, sorted(sizes.items()))):
                    rec.sample({"styles": [list(s) for s in styles], "sample_nums": nums, "sizes": sizes, "selected": obs.get("sel"), "thresholds": obs.get("thr")})


def sparse_cases():
    """larger lists: c1 on every card, c2 on every q-th card only; identity / reversed / interleaved sample-number orders"""
    for n, q in ((40, 7), (90, 12), (150, 40), (1200, 400)):
        styles = [("c1", "c2") if i % q == q - 1 else ("c1",) for i in range(n)]
        a2 = sum(1 for s in styles if "c2" in s)
        for order in ("id", "rev", "mix"):
            nums = {"id": list(range(n)), "rev": list(range(n - 1, -1, -1)), "mix": [(i * 37) % n for i in range(n)]}[order]
            if len(set(nums)) != n:
                continue
            for s1_ in (0, 1, 5):
                for s2_ in range(0, a2 + 1):
                    yield styles, [10 ** 18 + x for x in nums], {"c1": s1_, "c2": s2_}


def judge_seed(seed, n):
    out = []
    a = [CVR(id=f"x{i}", votes={"c1": {"A": True}}) for i in range(n)]
    b = [CVR(id=f"y{i}", votes={"c2": {"B": 1}, "c9": {}}, phantom=True) for i in range(n)]
    longer = [CVR(id=f"z{i}", votes={}) for i in range(n + 3)]
    CVR.assign_sample_nums(a, SHA256(seed))
    CVR.assign_sample_nums(b, SHA256(seed))
    CVR.assign_sample_nums(longer, SHA256(seed))
    want = [RS.sha256_sample_num(seed, i) for i in range(n + 3)]
    if [c.sample_num for c in a] != want[:n]:
        out.append(("C07|sample-nums|not-the-seeded-stream", f"seed {seed!r}: sample numbers differ from the SHA-256 counter stream"))
    if [c.sample_num for c in a] != [c.sample_num for c in b]:
        out.append(("C07|sample-nums|depend-on-contents", f"seed {seed!r}: numbers differ for lists of equal length and different contents"))
    if [c.sample_num for c in longer][:n] != [c.sample_num for c in a]:
        out.append(("C07|sample-nums|depend-on-length", f"seed {seed!r}: a card's number depends on the list length"))
    # cards that already carry numbers (a second call, a re-seed, numbers read in with the records): the numbers
    # are a function of the seed and the position only, so they are overwritten
    stale = [CVR(id=f"w{i}", votes={}, sample_num=(None if i % 2 else 7 + i)) for i in range(n)]
    CVR.assign_sample_nums(stale, SHA256(seed))
    again = [CVR(id=f"v{i}", votes={}) for i in range(n)]
    CVR.assign_sample_nums(again, SHA256("another seed"))
    CVR.assign_sample_nums(again, SHA256(seed))
    if [c.sample_num for c in stale] != want[:n] or [c.sample_num for c in again] != want[:n]:
        out.append(("C07|sample-nums|depend-on-previous-numbers", f"seed {seed!r}: cards that already carried a sample number do not get the seeded stream"))
    mixed = [CVR(id=f"m{i}", votes={}, phantom=(i % 2 == 0)) for i in range(n)]  # phantoms in front of real cards
    CVR.assign_sample_nums(mixed, SHA256(seed))
    if [c.sample_num for c in mixed] != want[:n]:
        out.append(("C07|sample-nums|depend-on-contents", f"seed {seed!r}: numbers depend on which records are phantoms"))
    if len(set(c.sample_num for c in longer)) != n + 3:
        out.append(("C07|sample-nums|not-distinct", f"seed {seed!r}: repeated sample numbers"))
    return out


def explore(tier, seed):
    sh = [("seeds",), ("sparse",)]
    for k, maxn in PLAN[tier]:
        for n in range(1, maxn + 1):
            for fs in range(len(s4.style_menu(k))):
                for fn in range(n):
                    sh.append(("sample", k, n, fs, fn))
    return core.pmap(run_shard, sh, seed, progress="C07")


def run_case(case):
    if case["kind"] == "seed":
        return judge_seed(case["seed"], case["n"])
    return judge(case["ids"], [tuple(s) for s in case["styles"]], case["nums"], case["sizes"])[0]
