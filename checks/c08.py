"""C08 -- phantom records account for every possible card and are scored worst-case (S3)."""
import copy
import itertools
import warnings
from fractions import Fraction as F

import numpy as np
import pandas as pd

from shangrla.core.Audit import CVR, Assertion, Audit, Contest
from shangrla.formats.Dominion import Dominion
from shangrla.formats.Hart import Hart

from vmc import core
from . import s3, s4

ID = "C08"
RULE = (
    "(a) accounting: every CVR list of n cards (n = 0 included) with every style over 2 contests x per-contest card bound (Python integers, and again as numpy integers) in {unset, count, "
    "count+1, count+2} x stratum bound in {n, n+1, n+3} x style on/off x pool label on/off (and three contests with shortfalls in {0,1,3,6}, style on): make_phantoms must return the "
    "original objects unchanged and first, unique phantom identifiers distinct from real ones, per-contest (style) or total "
    "(no style) record counts equal to the bound, and no more phantoms than the largest shortfall; (b) scoring: for every "
    "card of the S3 alphabet inside every population of <= 2 cards, every assorter kind, style on/off: replacing the manual "
    "record by 'unfindable' never increases the overstatement assorter, and an unpooled phantom CVR is scored 1/2; (c) "
    "sample_from_cvrs of both vendors on lists with phantoms (documented prefix 'phantom-1-'): a phantom MVR with the same "
    "identifier for exactly the sampled phantoms, every ordered sample of <= 3 cards.  Non-trivial = accounting case that "
    "needs at least one phantom / scoring pair with a strict decrease; distinct = distinct case"
)
ASSUMPTIONS = ["bounds below the number of CVRs are outside the property's quantifier", "real identifiers never start with the phantom prefix"]
REQUIRE_VAC = ["bounds_unspecified_by_omission", "empty_cvr_list_cases", "cases_needing_phantoms", "cases_no_phantom_needed", "strict_decrease_pairs", "phantom_cvr_scored", "phantoms_sampled", "shared_phantom_two_contests"]
PLAN = {"quick": 3, "thorough": 5}
IDS = ["c1", "c2"]


def bounds(tier):
    return {"max cards (accounting)": PLAN[tier], "contest bounds": ["unset", "count", "count+1", "count+2"], "stratum bounds": ["n", "n+1", "n+3"],
            "scoring populations": "<= 2 cards of the S3 alphabet x 4 assorter kinds", "vendor samples": "all ordered samples of <= 3 from lists of <= 4"}


def judge_accounting(styles, cb, sb, use_style, pool, IDS=IDS, np_bounds=False, omit_unspecified=False):
    n = len(styles)
    cvrs = s4.make_cards(styles, list(range(1, n + 1)))
    for c in cvrs:
        c.sample_num = None
    before = [(c.id, copy.deepcopy(c.votes), c.phantom, c.pool, c.tally_pool) for c in cvrs]
    counts = {c: sum(1 for s in styles if c in s) for c in IDS}
    max_cards = n + sb
    cards = {c: (None if cb[i] is None else counts[c] + cb[i]) for i, c in enumerate(IDS)}
    if np_bounds:  # bounds as numpy integers (what Contest.check_cards and any numpy sum produce), alternating widths
        cards = {c: (None if v is None else (np.int64(v) if i % 2 == 0 else np.int32(v))) for i, (c, v) in enumerate(cards.items())}
    cons = s4.make_contests(IDS, {}, cards_per=cards)
    for c in IDS:
        cons[c].cards = cards[c]
        if omit_unspecified and cards[c] is None:
            # "unspecified" the other way: a contest built without any cards entry (the constructor's own default)
            d = {k_: v_ for k_, v_ in cons[c].__dict__.items() if k_ not in ("cards", "assertions")}
            cons[c] = Contest.from_dict(d)
    audit = s4.audit_obj(max_cards, use_style)
    out = []
    try:
        res, nph = CVR.make_phantoms(audit=audit, contests=cons, cvr_list=cvrs, prefix="phantom-1-", tally_pool="PH" if pool else None, pool=pool)
    except Exception as e:  # noqa
        return [(f"C08|make_phantoms|exception|{type(e).__name__}", f"make_phantoms raised {type(e).__name__}: {str(e)[:80]}")], None
    if len(res) < n or any(res[i] is not cvrs[i] for i in range(n)):
        out.append(("C08|accounting|originals-not-first", "the original records are not returned first / as the same objects"))
    after = [(c.id, c.votes, c.phantom, c.pool, c.tally_pool) for c in cvrs]
    if after != before:
        out.append(("C08|accounting|originals-changed", f"an original record was modified: {before} -> {after}"))
    ph = res[n:]
    if any(not p.phantom for p in ph):
        out.append(("C08|accounting|phantom-flag", "an appended record is not flagged as a phantom"))
    ids = [p.id for p in ph]
    if len(set(ids)) != len(ids) or set(ids) & {c.id for c in cvrs}:
        out.append(("C08|accounting|identifiers", f"phantom identifiers not unique / collide with real ones: {ids}"))
    # (the requested prefix and pool labelling are documented parameters, but no clause of C08 speaks about them: not judged)
    if nph != len(ph):
        out.append(("C08|accounting|count-returned", f"returned count {nph} but {len(ph)} records were appended"))
    eff = {c: (max_cards if (cards[c] is None or not use_style) else cards[c]) for c in IDS}
    if use_style:
        short = max([eff[c] - counts[c] for c in IDS] + [0])
        for c in IDS:
            listing = sum(1 for r in res if r.has_contest(c))
            if listing != eff[c]:
                out.append(("C08|accounting|per-contest-count", f"contest {c}: {listing} records list it but its card bound is {eff[c]} ({counts[c]} CVRs)"))
        if len(ph) != short:
            out.append(("C08|accounting|number-of-phantoms", f"{len(ph)} phantoms created, largest shortfall is {short}"))
    else:
        if len(res) != max_cards:
            out.append(("C08|accounting|total-count", f"{len(res)} records in all but the stratum bound is {max_cards}"))
    for c in IDS:
        if cons[c].cards != eff[c]:
            out.append(("C08|accounting|contest.cards", f"contest {c}: cards = {cons[c].cards}, expected {eff[c]}"))
        if int(cons[c].cvrs) != counts[c]:
            out.append(("C08|accounting|contest.cvrs", f"contest {c}: cvrs = {cons[c].cvrs}, expected {counts[c]}"))
    info = {"phantoms": len(ph), "shared": use_style and sum(1 for p in ph if len(p.votes) == 2) > 0}
    return out, info


def judge_scoring(kind, cards, style):
    """card 0 is under study: unfindable MVR never scores above any other MVR; unpooled phantom CVR = 1/2"""
    try:
        w = s3.workflow(kind, cards, style)
    except Exception as e:  # noqa
        return [(f"C08|scoring|workflow-exception|{type(e).__name__}", f"{type(e).__name__}: {str(e)[:80]}")], None
    if 0 not in w["under"]:
        return [], None
    asn, cvrs = w["asn"], w["cvrs"]
    if asn.margin is None or asn.margin != asn.margin:
        return [], None
    cont = s3.contents(kind)
    out = []
    strict = False

    def mk(mc):
        if mc == "unfindable":
            return CVR(id="card0", votes={}, phantom=True)
        mv = {"other": {"X": True}}
        if cont[mc] is not None:
            mv[s3.CID] = dict(cont[mc])
        return CVR(id="card0", votes=mv, phantom=False)

    with warnings.catch_warnings():
        warnings.simplefilter("ignore")
        try:
            b_ph = asn.overstatement_assorter(mk("unfindable"), cvrs[0], use_style=style)
            for mc in cont:
                b = asn.overstatement_assorter(mk(mc), cvrs[0], use_style=style)
                if b_ph > b + 1e-12:
                    out.append((f"C08|scoring|{kind}|unfindable-scores-higher", f"{kind}, style {style}: unfindable card scores {b_ph} but manual record '{mc}' scores {b} (cvr {cards[0]})"))
                if b_ph < b - 1e-12:
                    strict = True
            cc, _, p, ph = cards[0]
            if ph and not cvrs[0].pool:
                for mc in list(cont) + ["unfindable"]:
                    o = asn.assorter.overstatement(mk(mc), cvrs[0], style)
                    a = F(0) if (mc == "unfindable" or (style and cont[mc] is None)) else s3.ref_assort(kind, cont[mc])
                    if abs(o - float(F(1, 2) - a)) > 1e-12:
                        out.append((f"C08|scoring|{kind}|phantom-cvr-not-1/2", f"{kind}: overstatement for a phantom CVR with manual record '{mc}' is {o}, expected 1/2 - {float(a)}"))
        except Exception as e:  # noqa
            out.append((f"C08|scoring|{kind}|exception|{type(e).__name__}", f"{type(e).__name__}: {str(e)[:80]}"))
    return out, strict


def dominion_manifest():
    return pd.DataFrame({"Tray #": [1, 2], "Tabulator Number": [7, 8], "Batch Number": [1, 1], "Total Ballots": [2, 2], "VBMCart.Cart number": [3, 4]}).astype(
        {"Tray #": str, "Tabulator Number": str, "Batch Number": str, "VBMCart.Cart number": str})


def hart_manifest():
    return pd.DataFrame({"Container": ["x", "y"], "Tabulator": ["t1", "t2"], "Batch Name": ["b1", "b2"], "Number of Ballots": ["2", "2"]})


def judge_vendor(vendor, layout, sample):
    """layout: tuple of booleans (is phantom) per list position"""
    cvrs = []
    k = 0
    for i, ph in enumerate(layout):
        if ph:
            k += 1
            cvrs.append(CVR(id=f"phantom-1-{k}", votes={"c1": {}}, phantom=True))
        elif vendor == "dominion":
            # card_in_batch is the 0-based lexicographic position ONEAudit assigns; it is not the record number of the id
            cvrs.append(CVR(id=f"{7 + i % 2}-1-{i + 1}", votes={"c1": {"A": True}}, card_in_batch=i // 2))
        else:
            cvrs.append(CVR(id=f"b{1 + i % 2}_{i + 1}", votes={"c1": {"A": True}}))
    out = []
    try:
        if vendor == "dominion":
            cards, order, cs, mph = Dominion.sample_from_cvrs(cvrs, dominion_manifest(), np.array(sample))
        else:
            cards, order, cs, mph = Hart.sample_from_cvrs(cvrs, hart_manifest(), np.array(sample))
    except Exception as e:  # noqa
        return [(f"C08|{vendor}|sample_from_cvrs|exception|{type(e).__name__}", f"{type(e).__name__}: {str(e)[:80]}")]
    if [c.id for c in cs] != [cvrs[s].id for s in sample] or any(a is not cvrs[s] for a, s in zip(cs, sample)):
        out.append((f"C08|{vendor}|cvr-sample", f"sampled CVRs {[c.id for c in cs]} for sample {sample}"))
    want = [cvrs[s].id for s in sample if cvrs[s].phantom]
    if [m.id for m in mph] != want or any(not m.phantom for m in mph):
        out.append((f"C08|{vendor}|phantom-mvrs", f"phantom manual records {[m.id for m in mph]} but the sampled phantoms are {want}"))
    key = 5 if vendor == "dominion" else -1
    got_ids = sorted(str(c[key]) for c in cards)
    want_ids = sorted((cvrs[s].id if (vendor == "dominion" or not cvrs[s].phantom) else cvrs[s].id) for s in sample)
    if got_ids != want_ids:
        out.append((f"C08|{vendor}|card-identifiers", f"cards looked up {got_ids}, sampled CVR identifiers {want_ids}"))
    for i, s in enumerate(sample):
        cid = cvrs[s].id
        if cid not in order or order[cid]["selection_order"] != i:
            out.append((f"C08|{vendor}|selection-order", f"card {cid} drawn {i}-th has order entry {order.get(cid)}"))
            break
    return out


def run_shard(sh, rec):
    if sh[0] in ("acct", "acct3"):
        _, n, first = sh
        k = 2 if sh[0] == "acct" else 3
        ids = s4.CONTESTS[:k]
        menu = s4.style_menu(k)
        for rest in itertools.product(range(len(menu)), repeat=n - 1):
            styles = [menu[first]] + [menu[j] for j in rest]
            rec.state()
            for cb in itertools.product([None, 0, 1, 2] if k == 2 else [0, 1, 3, 6], repeat=k):
                for sb in (0, 1, 3):
                    for use_style in (True, False):
                        for pool in (False, True):
                            if k == 3 and (pool or not use_style):
                                continue  # three contests: the per-contest (style) accounting only
                            v, info = judge_accounting(styles, cb, sb, use_style, pool, ids)
                            rec.trans()
                            rec.evals()
                            rec.trace()
                            rec.observe((styles, cb, sb, use_style, pool, info))
                            if info:
                                rec.vac("cases_needing_phantoms" if info["phantoms"] else "cases_no_phantom_needed")
                                if info["phantoms"]:
                                    rec.outcome((tuple(styles), cb, sb, use_style, pool))
                                if info["shared"]:
                                    rec.vac("shared_phantom_two_contests")
                            for key, what in v:
                                rec.violate(key, what, {"kind": "acct", "styles": [list(s) for s in styles], "cb": list(cb), "sb": sb, "use_style": use_style, "pool": pool, "ids": ids})
                            if use_style and not pool and any(b is None for b in cb):
                                v3, _ = judge_accounting(styles, cb, sb, use_style, pool, ids, omit_unspecified=True)
                                rec.trans()
                                rec.evals()
                                rec.vac("bounds_unspecified_by_omission")
                                for key, what in v3:
                                    rec.violate(key + "|cards-omitted", what + " [contest built without a cards entry]",
                                                {"kind": "acct", "styles": [list(s) for s in styles], "cb": list(cb), "sb": sb, "use_style": use_style, "pool": pool, "ids": ids, "omit": True})
                            if use_style and not pool and any(b is not None for b in cb):
                                v2, info2 = judge_accounting(styles, cb, sb, use_style, pool, ids, np_bounds=True)
                                rec.trans()
                                rec.evals()
                                rec.vac("bounds_given_as_numpy_integers")
                                rec.observe((styles, cb, sb, "np", info2))
                                for key, what in v2:
                                    rec.violate(key + "|numpy-bounds", what + " [contest bounds given as numpy integers]",
                                                {"kind": "acct", "styles": [list(s) for s in styles], "cb": list(cb), "sb": sb, "use_style": use_style, "pool": pool, "ids": ids, "np_bounds": True})
                            if rec.want_sample((styles, cb, sb, use_style, pool)):
                                rec.sample({"styles": [list(s) for s in styles], "contest_bounds(count+)": list(cb), "stratum_bound(n+)": sb, "use_style": use_style,
                                            "pool_label": pool, "phantoms": info and info["phantoms"]})
    elif sh[0] == "empty":
        # the root of the lattice: no CVR at all (every card of every contest is then a phantom)
        for cb in itertools.product([None, 0, 1, 2], repeat=2):
            for sb in (0, 1, 3):
                for use_style in (True, False):
                    for np_bounds in (False, True):
                        if np_bounds and all(b is None for b in cb):
                            continue
                        v, info = judge_accounting([], cb, sb, use_style, False, IDS, np_bounds)
                        rec.state()
                        rec.trans()
                        rec.evals()
                        rec.vac("empty_cvr_list_cases")
                        for key, what in v:
                            rec.violate(key, what, {"kind": "acct", "styles": [], "cb": list(cb), "sb": sb, "use_style": use_style, "pool": False, "np_bounds": np_bounds})
    elif sh[0] == "count":
        # many records of two styles: k of n list c1, the others c2 only; bounds = counts + 1 (every count 0..n, n up to 60)
        for n in range(1, 61):
            for k in range(0, n + 1):
                styles = [("c1",)] * k + [("c2",)] * (n - k)
                v, info = judge_accounting(styles, (1, 1), 1, True, False)
                rec.state()
                rec.trans()
                rec.evals()
                rec.vac("counting_family_cases")
                for key, what in v:
                    rec.violate(key, what, {"kind": "acct", "styles": [list(s_) for s_ in styles], "cb": [1, 1], "sb": 1, "use_style": True, "pool": False})
    elif sh[0] == "score":
        _, kind, n, first = sh
        alpha = s3.alphabet(kind)
        for ms in itertools.product(range(len(alpha)), repeat=n - 1):
            cards = [alpha[first]] + [alpha[a] for a in ms]
            if cards[0][1] != "win":
                continue  # the manual record of the card under study is replaced anyway: one representative
            rec.state()
            for style in (True, False):
                v, strict = judge_scoring(kind, cards, style)
                rec.trans()
                rec.evals(7)
                rec.observe((kind, tuple(cards), style, strict))
                if strict:
                    rec.vac("strict_decrease_pairs")
                    rec.outcome((kind, tuple(cards), style))
                if cards[0][3] and cards[0][2] not in ("P", "Q"):
                    rec.vac("phantom_cvr_scored")
                for key, what in v:
                    rec.violate(key, what, {"kind": "score", "akind": kind, "cards": [list(c) for c in cards], "style": style})
    else:
        _, vendor = sh
        for n in (1, 2, 3, 4):
            for layout in itertools.product((False, True), repeat=n):
                rec.state()
                for r in (1, 2, 3):
                    for sample in itertools.permutations(range(n), r):
                        v = judge_vendor(vendor, layout, list(sample))
                        rec.trans()
                        rec.evals()
                        rec.vac("phantoms_sampled", sum(1 for s in sample if layout[s]))
                        for key, what in v:
                            rec.violate(key, what, {"kind": "vendor", "vendor": vendor, "layout": list(layout), "sample": list(sample)})


def explore(tier, seed):
    sh = [("vendor", "dominion"), ("vendor", "hart"), ("count",), ("empty",)]
    for n in range(1, PLAN[tier] + 1):
        for first in range(4):
            sh.append(("acct", n, first))
    for n in range(1, 3 if tier == "quick" else 4):
        for first in range(8):
            sh.append(("acct3", n, first))
    for kind in s3.KINDS:
        for n in (1, 2):
            for first in range(len(s3.alphabet(kind))):
                sh.append(("score", kind, n, first))
    return core.pmap(run_shard, sh, seed, progress="C08")


def run_case(case):
    if case["kind"] == "acct":
        v = judge_accounting([tuple(s) for s in case["styles"]], tuple(case["cb"]), case["sb"], case["use_style"], case["pool"], case.get("ids", IDS), bool(case.get("np_bounds")),
                             bool(case.get("omit")))[0]
        if case.get("omit"):
            return [(k + "|cards-omitted", w) for k, w in v]
        return [(k + "|numpy-bounds", w) for k, w in v] if case.get("np_bounds") else v
    if case["kind"] == "score":
        return judge_scoring(case["akind"], [tuple(c) for c in case["cards"]], case["style"])[0]
    return judge_vendor(case["vendor"], tuple(case["layout"]), case["sample"])
