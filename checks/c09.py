"""C09 -- audit completes only when every assertion of every contest meets its risk limit (S5 audit-status machine)."""
import contextlib
import io
import itertools
from collections import deque

import numpy as np

from shangrla.core.Audit import CVR, Assertion, Audit, Contest
from shangrla.core.NonnegMean import NonnegMean

from vmc import core

ID = "C09"
RULE = (
    "contest sets = every single contest and every unordered pair drawn from {polling plurality (2 assertions), comparison "
    "plurality (2 assertions, shrink-truncate), comparison super-majority (Kaplan-Kolmogorov), ONEAudit plurality (aGRAPA "
    "betting), polling IRV (2 JSON assertions)}, and each of these beside an IRV contest with an empty assertion list (no demand on that contest's own max_p; the audit-wide figure is the largest p-value of any assertion, as set_p_values documents), x every assignment of distinct risk limits from {0.05,0.2,0.5}; operation "
    "alphabet {set_p_values(sample_k) for 5 fixed samples, summarize_status, reset_p_values}; breadth-first search over all "
    "operation sequences to the depth bound, replayed on fresh objects, states de-duplicated on the canonical tuple (per "
    "assertion p, history, proved; per contest max_p, p_values, proved).  After every operation the whole state is compared "
    "with the reference status model and with a twin NonnegMean run on the assertion's own data.  Non-trivial = state in "
    "which some but not all assertions are within their limit, or a confirmed assertion currently above its limit; "
    "distinct = distinct (contest set, canonical state).  In addition, for every single contest and sample, risk limits equal to the "
    "measured risk, one ulp below / above it and 1e-9..1e-4 relatively below it, followed by summarize_status"
)
ASSUMPTIONS = [
    "the twin test is a fresh NonnegMean with the contest's configuration, fed the output of the assertion's own mvrs_to_data (whose correctness is C06's business)",
    "stdout of summarize_status is captured and ignored",
]
REQUIRE_VAC = ["risk_limit_at_or_next_to_measured_risk", "states_some_but_not_all_confirmed", "failing_assertion_in_looser_contest", "proved_but_currently_above_limit", "summarize_true", "summarize_false", "resets_after_evidence", "empty_contest_beside_confirmed_one", "empty_contest_beside_partly_confirmed_one"]
LIMITS = [0.05, 0.2, 0.5]
N = 20

KINDS = {
    "k1": dict(choice=Contest.SOCIAL_CHOICE_FUNCTION.PLURALITY, audit=Audit.AUDIT_TYPE.POLLING, test=NonnegMean.alpha_mart, estim=None, bet=None, kw={}),
    "k2": dict(choice=Contest.SOCIAL_CHOICE_FUNCTION.PLURALITY, audit=Audit.AUDIT_TYPE.CARD_COMPARISON, test=NonnegMean.alpha_mart, estim=NonnegMean.shrink_trunc, bet=None, kw={"eta": 0.9, "d": 5}),
    "k3": dict(choice=Contest.SOCIAL_CHOICE_FUNCTION.SUPERMAJORITY, audit=Audit.AUDIT_TYPE.CARD_COMPARISON, test=NonnegMean.kaplan_kolmogorov, estim=None, bet=None, kw={"g": 0.1}),
    "k4": dict(choice=Contest.SOCIAL_CHOICE_FUNCTION.PLURALITY, audit=Audit.AUDIT_TYPE.ONEAUDIT, test=NonnegMean.betting_mart, estim=None, bet=NonnegMean.agrapa, kw={"lam": 0.5}),
    "k5": dict(choice=Contest.SOCIAL_CHOICE_FUNCTION.IRV, audit=Audit.AUDIT_TYPE.POLLING, test=NonnegMean.alpha_mart, estim=None, bet=None, kw={"eta": 0.8}),
}
# an IRV contest whose assertion list is empty (nothing to confirm): it must neither block completion nor raise the
# audit-wide measured risk, which set_p_values documents as the "largest p-value for any assertion in any contest"
KINDS["k0"] = dict(KINDS["k5"])
EMPTY = {"k0"}
# wide plurality contests: 12 and 28 candidates, i.e. 11 and 27 assertions (more than any fixed small list holds)
WIDE = {"w12": 12, "w28": 28}
for _k, _n in WIDE.items():
    KINDS[_k] = dict(choice=Contest.SOCIAL_CHOICE_FUNCTION.PLURALITY, audit=Audit.AUDIT_TYPE.POLLING, test=NonnegMean.alpha_mart, estim=None, bet=None, kw={"eta": 0.7})
IRV_JSON = [
    {"winner": "A", "loser": "B", "assertion_type": "WINNER_ONLY", "already_eliminated": ""},
    {"winner": "A", "loser": "C", "assertion_type": "IRV_ELIMINATION", "already_eliminated": ["B"]},
]
# card types: (cvr says, mvr says) per contest kind
SAMPLES = {
    "s3": ["clean"] * 3,
    "s6": ["clean"] * 6,
    "s11": ["clean"] * 11,
    "sx": ["clean"] * 5 + ["over2", "clean"],
    "sy": ["lose", "over1", "clean", "phantom"],
    "sz": ["lose"] * 5 + ["clean"] * 6,
}
OPS = list(SAMPLES) + ["summarize", "reset"]


def bounds(tier):
    return {"contest_sets": "5 singles + 10 pairs + 10 pairs with a contest that has no assertions + 2 wide single contests (11 and 27 assertions)" + (" + 10 triples" if tier == "thorough" else ""), "risk_limits": LIMITS, "ops": OPS, "depth": 3 if tier == "quick" else 4, "population_cards": N}


_LAST = {}


def last_loser(k):
    """the loser of the assertion that make_all_assertions lists LAST for a wide contest (the order comes from a set)"""
    if k not in _LAST:
        _LAST[k] = "?"  # placeholder while the contest is built once to read the order
        con = make_contests((k,), (0.2,))[k]
        _LAST[k] = list(con.assertions.values())[-1].loser
    return _LAST[k]


def card_votes(kind_of_vote):
    """votes on a card for all contests, for vote pattern in {win, lose, blank}"""
    if kind_of_vote == "win":
        return {"k1": {"A": True}, "k2": {"A": True}, "k3": {"A": True}, "k4": {"A": True}, "k5": {"A": 1, "B": 2, "C": 3}, "k0": {"A": 1, "B": 2}, "w12": {"A": True}, "w28": {"A": True}}
    if kind_of_vote == "lose":  # in the wide contests the vote goes to the LAST candidate, so the last-listed assertion is the weak one
        return {"k1": {"B": True}, "k2": {"C": True}, "k3": {"B": True}, "k4": {"B": True}, "k5": {"B": 1, "C": 2}, "k0": {"C": 1}, "w12": {last_loser("w12"): True}, "w28": {last_loser("w28"): True}}
    return {"k1": {}, "k2": {}, "k3": {}, "k4": {}, "k5": {}, "k0": {}, "w12": {}, "w28": {}}


def make_sample(name):
    mv, cv = [], []
    for i, t in enumerate(SAMPLES[name]):
        cid = f"{name}-{i}"
        c_says, m_says, m_ph = {"clean": ("win", "win", False), "lose": ("lose", "lose", False), "over1": ("win", "blank", False),
                                "over2": ("win", "lose", False), "phantom": ("win", "blank", True)}[t]
        cv.append(CVR(id=cid, votes=card_votes(c_says), sample_num=i + 1, pool=False, tally_pool="P"))
        mv.append(CVR(id=cid, votes={} if m_ph else card_votes(m_says), phantom=m_ph))
    return mv, cv


def make_contests(cset, limits):
    d = {}
    for k, lim in zip(cset, limits):
        K = KINDS[k]
        d[k] = {"name": k, "risk_limit": lim, "cards": N, "choice_function": K["choice"], "n_winners": 1,
                "share_to_win": 2 / 3 if K["choice"] == Contest.SOCIAL_CHOICE_FUNCTION.SUPERMAJORITY else None,
                "candidates": (["A"] + [f"Z{i}" for i in range(1, WIDE[k])]) if k in WIDE else ["A", "B", "C"], "winner": ["A"], "assertion_file": "x" if k in ("k5", "k0") else None, "audit_type": K["audit"],
                "test": K["test"], "estim": K["estim"], "bet": K["bet"], "test_kwargs": dict(K["kw"]), "g": 0.1, "use_style": True,
                "sample_size": 100, "sample_threshold": 10 ** 9, "tally": None, "assertion_json": IRV_JSON if k == "k5" else [] if k == "k0" else None}
    cons = Contest.from_dict_of_dicts(d)
    Assertion.make_all_assertions(cons)
    for k, con in cons.items():
        for j, a in enumerate(con.assertions.values()):
            a.margin = 0.6 - 0.15 * j  # every assertion has its own margin, hence its own bound u
            if k == "k4":
                a.assorter.tally_pool_means = {"P": 0.8}
            if KINDS[k]["audit"] == Audit.AUDIT_TYPE.POLLING:
                # the same objects were set up for a comparison audit before the contest fell back to polling: the test
                # still holds the comparison bound, and set_p_values has to configure it for the data it is given
                a.test.u = 2 / (2 - a.margin / a.assorter.upper_bound)
    return cons


def snapshot(cons):
    return tuple((k, con.risk_limit,
                  tuple((a, float(asn.p_value), tuple(float(x) for x in asn.p_history), bool(asn.proved)) for a, asn in con.assertions.items()),
                  None if getattr(con, "max_p", None) is None else float(con.max_p),
                  tuple(sorted((a, float(p)) for a, p in getattr(con, "p_values", {}).items())) if getattr(con, "p_values", None) is not None else None,
                  tuple(sorted((a, bool(p)) for a, p in getattr(con, "proved", {}).items())) if getattr(con, "proved", None) is not None else None)
                 for k, con in cons.items())


def run_history(cset, limits, hist):
    """replay ops on fresh objects; returns list of (op, return value, snapshot after, twin results after)"""
    cons = make_contests(cset, limits)
    audit = Audit.from_dict({"strata": {"s": {"max_cards": N, "use_style": True, "replacement": False}}})
    trail = []
    for op in hist:
        twin = None
        with contextlib.redirect_stdout(io.StringIO()):
            if op == "summarize":
                ret = audit.summarize_status(cons)
            elif op == "reset":
                ret = Assertion.reset_p_values(cons)
            else:
                mv, cv = make_sample(op)
                ret = Assertion.set_p_values(cons, mv, cv)
                twin = {}
                for k, con in cons.items():
                    K = KINDS[k]
                    for a, asn in con.assertions.items():
                        mv2, cv2 = make_sample(op)
                        d, u = asn.mvrs_to_data(mv2, cv2)
                        extra = dict(K["kw"])
                        if K["choice"] == Contest.SOCIAL_CHOICE_FUNCTION.PLURALITY:
                            extra.setdefault("g", con.g)
                        nm = NonnegMean(test=K["test"], estim=K["estim"], bet=K["bet"], u=u, N=N, t=1 / 2, random_order=True, **extra)
                        p2, h2 = nm.test(d)
                        twin[(k, a)] = (float(p2), tuple(float(x) for x in h2), float(asn.test.u), float(u))
        trail.append((op, ret, snapshot(cons), twin))
    return trail


def judge_history(cset, limits, hist, feats=None):
    """reference status model stepped along the trail"""
    try:
        trail = run_history(cset, limits, hist)
    except Exception as e:  # noqa
        return [(f"C09|exception|{type(e).__name__}", f"{hist}: raised {type(e).__name__}: {str(e)[:80]}")], None
    out = []
    lim = dict(zip(cset, limits))
    model = None  # {(k,a): [p, hist, proved]}
    for op, ret, snap, twin in trail:
        names = {k: [a for a, *_ in asn] for k, _, asn, *_ in snap}
        if model is None:
            model = {(k, a): [1.0, (), False] for k in names for a in names[k]}
            cmax = {k: None for k in names}
        if op == "reset":
            for key in model:
                model[key] = [1.0, (), False]
            cmax = {k: 1.0 if names[k] else None for k in names}
            if ret is not True:
                out.append(("C09|reset|return", f"reset_p_values returned {ret!r}"))
        elif op == "summarize":
            want = all(model[(k, a)][0] <= lim[k] for k in names for a in names[k])
            if bool(ret) != want or not isinstance(ret, (bool, np.bool_)):
                out.append(("C09|summarize|wrong-verdict", f"summarize_status returned {ret!r} but 'every assertion within its own contest's limit' is {want} "
                            f"(p-values { {f'{k}:{a}': round(model[(k, a)][0], 4) for k in names for a in names[k]} }, limits {lim})"))
            if feats is not None:
                feats.add("summarize_true" if want else "summarize_false")
        else:
            if feats is not None and any(model[key][1] for key in model):
                pass
            for k in names:
                for a in names[k]:
                    p2, h2, u_installed, u_ret = twin[(k, a)]
                    prev_proved = model[(k, a)][2]
                    model[(k, a)] = [p2, h2, (p2 <= lim[k]) or prev_proved]
                cmax[k] = max(model[(k, a)][0] for a in names[k]) if names[k] else None  # no demand on an empty contest's own figure
            want_ret = max([cmax[k] for k in names if names[k]], default=None)
            if want_ret is not None and float(ret) != want_ret:
                out.append(("C09|set_p_values|return", f"set_p_values returned {ret} but the largest p-value over all contests is {want_ret}"))
        # compare the whole state
        for k, rl, asns, max_p, pvals, proved in snap:
            for a, p, h, pr in asns:
                mp, mh, mpr = model[(k, a)]
                if p != mp or h != mh:
                    out.append(("C09|assertion|p-or-history", f"after {op}: {k}:{a}: recorded p={p} (history length {len(h)}) but its test gives p={mp} (length {len(mh)})"))
                if pr != mpr:
                    out.append(("C09|assertion|proved-flag", f"after {op}: {k}:{a}: proved={pr}, expected {mpr} (p={mp}, limit {lim[k]})"))
            if op != "summarize":
                if cmax[k] is not None and max_p != cmax[k]:
                    out.append(("C09|contest|max_p", f"after {op}: contest {k}: max_p={max_p} but the largest p-value among its assertions is {cmax[k]}"))
                if pvals is not None and dict(pvals) != {a: model[(k, a)][0] for a in names[k]}:
                    out.append(("C09|contest|p_values", f"after {op}: contest {k}: p_values {dict(pvals)}"))
                if proved is not None and dict(proved) != {a: model[(k, a)][2] for a in names[k]}:
                    out.append(("C09|contest|proved", f"after {op}: contest {k}: proved {dict(proved)}"))
        if out:
            break
    if feats is not None and model is not None:
        inl = [(model[(k, a)][0] <= lim[k]) for k in names for a in names[k]]
        if any(inl) and not all(inl):
            feats.add("states_some_but_not_all_confirmed")
            if EMPTY & set(cset):
                feats.add("empty_contest_beside_partly_confirmed_one")
            if len(cset) >= 2:
                loose = max(cset, key=lambda k: lim[k])
                if any(model[(loose, a)][0] > lim[loose] for a in names[loose]) and all(
                        model[(k, a)][0] <= lim[k] for k in names if k != loose for a in names[k]):
                    feats.add("failing_assertion_in_looser_contest")
        if EMPTY & set(cset) and inl and all(inl):
            feats.add("empty_contest_beside_confirmed_one")
        if any(model[key][2] and model[key][0] > lim[key[0]] for key in model):
            feats.add("proved_but_currently_above_limit")
        if hist and hist[-1] == "reset" and any(op in SAMPLES for op in hist[:-1]):
            feats.add("resets_after_evidence")
    # de-dup keys
    seen, ded = set(), []
    for k_, w in out:
        if k_ not in seen:
            seen.add(k_)
            ded.append((k_, w))
    return ded, (trail[-1][2] if trail else None)


def configs(tier="quick"):
    ks = [k for k in KINDS if k not in WIDE and k not in EMPTY]
    for k in ks:  # the contest without assertions beside every other kind, tighter and looser than it, listed first and last
        for la, lb in itertools.permutations(LIMITS, 2):
            yield ("k0", k), (la, lb)
            yield (k, "k0"), (la, lb)
    for k in WIDE:
        for l in LIMITS:
            yield (k,), (l,)
    if tier == "thorough":  # every triple of contests with the three limits in every order
        for a, b, c in itertools.combinations(ks, 3):
            for lims in itertools.permutations(LIMITS, 3):
                yield (a, b, c), lims
    for k in ks:
        for l in LIMITS:
            yield (k,), (l,)
    for a, b in itertools.combinations(ks, 2):
        for la, lb in itertools.permutations(LIMITS, 2):
            yield (a, b), (la, lb)


def boundary_limits(k, sname):
    """risk limits at and immediately around the contest's measured risk for this sample"""
    cons = make_contests((k,), (0.5,))
    mv, cv = make_sample(sname)
    with contextlib.redirect_stdout(io.StringIO()):
        pm = float(Assertion.set_p_values(cons, mv, cv))
    if not (0 < pm <= 1):
        return []
    cands = [pm, float(np.nextafter(pm, 0)), pm * (1 - 1e-9), pm * (1 - 1e-6), pm * (1 - 1e-4), float(np.nextafter(pm, 2)), pm * (1 + 1e-6)]
    return sorted({l for l in cands if 0 < l <= 1})


def run_boundary(k, rec):
    for sname in SAMPLES:
        for lim in boundary_limits(k, sname):
            for hist in ((sname, "summarize"), (sname, sname, "summarize"), ("reset", sname, "summarize")):
                feats = set()
                v, snap = judge_history((k,), (lim,), hist, feats)
                rec.state()
                rec.trans()
                rec.evals(len(hist))
                rec.trace()
                rec.vac("risk_limit_at_or_next_to_measured_risk")
                for f in feats:
                    rec.vac(f)
                rec.observe(((k,), lim, hist, snap))
                for key, what in v:
                    rec.violate(key, what, {"cset": [k], "limits": [lim], "hist": list(hist)})


def run_shard(sh, rec):
    if sh[0] == "boundary":
        return run_boundary(sh[1], rec)
    cset, limits, depth = sh
    init_snap = snapshot(make_contests(cset, limits))
    seen = {init_snap}
    rec.state()
    frontier = deque([()])
    while frontier:
        hist = frontier.popleft()
        for op in OPS:
            nh = hist + (op,)
            feats = set()
            v, snap = judge_history(cset, limits, nh, feats)
            rec.trans()
            rec.evals(len(nh))
            for f in feats:
                rec.vac(f)
            rec.observe((cset, limits, nh, snap))
            for key, what in v:
                rec.violate(key, what, {"cset": list(cset), "limits": list(limits), "hist": list(nh)})
            if feats & {"states_some_but_not_all_confirmed", "proved_but_currently_above_limit"}:
                rec.outcome((cset, limits, snap))
            if len(nh) == depth:
                rec.trace()
            if snap is not None and not v:
                key = (snap, op == "summarize")  # summarize does not change the state
                if snap not in seen:
                    seen.add(snap)
                    rec.state()
                    if len(nh) < depth:
                        frontier.append(nh)
                elif op != "summarize" and len(nh) < depth and False:
                    pass
            if rec.want_sample((cset, limits, nh)):
                rec.sample({"contests": list(cset), "risk_limits": list(limits), "operations": list(nh),
                            "state_after": None if snap is None else [[k, [[a, p, len(h), pr] for a, p, h, pr in asns], mp] for k, rl, asns, mp, pv, prv in snap]})


def explore(tier, seed):
    depth = 3 if tier == "quick" else 4
    return core.pmap(run_shard, [("boundary", k) for k in KINDS if k not in WIDE and k not in EMPTY] + [(c, l, depth) for c, l in configs(tier)], seed, progress="C09")


def run_case(case):
    return judge_history(tuple(case["cset"]), tuple(case["limits"]), tuple(case["hist"]))[0]
