"""C10 -- escalation only ever extends the evidence (S4 multi-round machine; TLC second model in thorough tier)."""
import contextlib
import io
import itertools
import warnings
import os
from collections import deque

from shangrla.core.Audit import CVR, Assertion, Audit, Contest
from shangrla.core.NonnegMean import NonnegMean

from vmc import core
from vmc.ref import sampling as RS
from . import s4

ID = "C10"
RULE = (
    "for every world (n cards, each with any style over 2 contests, sample numbers in every order of the plan, without and with "
    "phantom records at the odd list positions) a "
    "breadth-first search over audit histories: event = raise the sample size of one non-exhausted contest (thorough: any "
    "non-empty subset) by one, then either REDRAW (fresh consistent_sampling) or CONTINUE (sampled_cvr_indices = previous "
    "result, thresholds kept on the same contests); the successor state (sizes, selected list, thresholds) is computed by "
    "the implementation from its own previous output; states are de-duplicated on exactly that triple.  On every "
    "transition: selected is a superset of the previous, no card twice, for every contest the cards feeding its assertion "
    "(recorded through prep_comparison_sample + mvrs_to_data) are the previous sequence with new cards appended, the "
    "redraw and the continue variant both equal the single-round reference for the new sizes (selection and thresholds), and with the same contests carried across the two rounds "
    "set_p_values gives non-increasing p-values and monotone 'proved' for every MVR world of the plan (MVR = CVR, one "
    "discrepant card, one unfindable card).  Non-trivial = transition taken after a card was skipped or touching a card "
    "that serves two contests; distinct = distinct (world, state, event)"
)
ASSUMPTIONS = [
    "every state is reached through rounds of the same process, so the previous selection is contained in the sample for the new sizes and a continued round must equal the redrawn one",
    "contests whose size is still 0 have no threshold and contribute no data",
    "p-value clause uses alpha_mart + shrink_trunc, alpha_mart + optimal_comparison and (thorough) kaplan_kolmogorov with risk limit 0.5 on populations of <= 5 cards; between the two rounds Audit.find_sample_size is called without manual records (planning from assumed error rates 0.01 / 0.05)",
]
REQUIRE_VAC = ["transitions_after_skipped_card", "transitions_card_two_contests", "continue_transitions", "redraw_transitions", "p_value_pairs_compared", "proved_then_still_proved"]

PERMS4 = [(0, 1, 2, 3), (3, 2, 1, 0), (2, 0, 3, 1)]
PERMS5 = [(0, 1, 2, 3, 4), (4, 3, 2, 1, 0), (2, 4, 0, 3, 1)]


def plan(tier):
    if tier == "quick":
        return {"worlds": [(1, "all"), (2, "all"), (3, "all"), (4, PERMS4)], "subset_events": False, "mvr_worlds": 3, "tests": ["alpha", "oc"]}
    return {"worlds": [(1, "all"), (2, "all"), (3, "all"), (4, "all"), (5, PERMS5)], "subset_events": True, "mvr_worlds": 99, "tests": ["alpha", "kk", "oc"]}


def bounds(tier):
    p = plan(tier)
    return {"cards -> sample-number orders": [(n, ps if ps == "all" else len(ps)) for n, ps in p["worlds"]], "contests": 2,
            "events": "one contest +1" + (" or any non-empty subset +1" if p["subset_events"] else ""), "modes": ["redraw", "continue"],
            "histories": "all, to exhaustion of the cards", "mvr_worlds_per_world": p["mvr_worlds"], "tests": p["tests"],
            "second_model": "tla/Escalation.tla (4 and 5 cards, 2 contests, rounds raising one or both contests) checked by TLC, every edge of the dumped graph replayed on the implementation (thorough tier)"}


IDS = s4.CONTESTS[:2]


PHANTOM_WORLD = {"on": False}  # world dimension: cards at odd list positions are phantom records


def build(styles, nums, sizes, thr, test="alpha"):
    cards = s4.make_cards(styles, nums, phantoms=[i % 2 == 1 for i in range(len(styles))] if PHANTOM_WORLD["on"] else None)
    t = NonnegMean.kaplan_kolmogorov if test == "kk" else NonnegMean.alpha_mart
    cons = s4.make_contests(IDS, sizes, cards_per={c: max(1, sum(1 for s in styles if c in s)) for c in IDS}, test=t, risk_limit=0.5)
    if test == "oc":  # ALPHA with the comparison-audit estimator, whose alternative depends on an assumed error rate
        for c in IDS:
            cons[c].estim = NonnegMean.optimal_comparison
    for c in IDS:
        if thr[c] is not None:  # before a contest's first draw the Contest keeps whatever threshold it was constructed with
            cons[c].sample_threshold = thr[c]
    return cards, cons


def step(styles, nums, state, newsizes, mode):
    """the real transition: returns new state (sizes, sel, thr) or ('exc', msg)"""
    sizes, sel, thr = state
    cards, cons = build(styles, nums, dict(zip(IDS, newsizes)), dict(zip(IDS, thr)))
    for i in sel:  # the card objects persist from round to round and carry the flag the previous round left on them
        cards[i].sampled = True
    try:
        if mode == "redraw":
            out = CVR.consistent_sampling(cards, cons)
        else:
            out = CVR.consistent_sampling(cards, cons, sampled_cvr_indices=list(sel))
    except Exception as e:  # noqa
        return ("exc", f"{type(e).__name__}: {str(e)[:60]}")
    new = (tuple(newsizes), tuple(int(i) for i in out), tuple(cons[c].sample_threshold for c in IDS))
    # the same round on contests that carry what set_p_values left behind (assertions, all confirmed): which cards are
    # drawn is a matter of sample numbers and sizes only
    cards2, cons2 = build(styles, nums, dict(zip(IDS, newsizes)), dict(zip(IDS, thr)))
    for i in sel:
        cards2[i].sampled = True
    for c in IDS:
        cons2[c].assertions = Assertion.make_plurality_assertions(cons2[c], winner=["A"], loser=["B"], test=cons2[c].test, estim=cons2[c].estim)
        for a in cons2[c].assertions.values():
            a.proved, a.p_value, a.margin = True, 0.01, 0.5
    try:
        out2 = CVR.consistent_sampling(cards2, cons2) if mode == "redraw" else CVR.consistent_sampling(cards2, cons2, sampled_cvr_indices=list(sel))
        new2 = (tuple(newsizes), tuple(int(i) for i in out2), tuple(cons2[c].sample_threshold for c in IDS))
    except Exception as e:  # noqa
        new2 = ("exc", f"{type(e).__name__}: {str(e)[:60]}")
    if new2 != new:
        return ("depends-on-confirmation", f"with all assertions confirmed the round gives {new2[1] if new2[0] != 'exc' else new2}, otherwise {list(new[1])}")
    return new


def data_ids(styles, nums, state, mvr_world=None, test="alpha", cons=None, cards=None):
    """cards feeding each contest's assertion for a state, through the real prep_comparison_sample + mvrs_to_data.
    If cons is given the same contest objects are reused (p-value clause) and set_p_values is run as well."""
    sizes, sel, thr = state
    if cards is None:
        cards, cons_new = build(styles, nums, dict(zip(IDS, sizes)), dict(zip(IDS, thr)), test)
        cons = cons or cons_new
    for c, t_, s_ in zip(IDS, thr, sizes):
        cons[c].sample_threshold = t_
        cons[c].sample_size = s_
    cvr_sample = [cards[i] for i in sel]
    for c_ in cvr_sample:
        c_.sampled = True  # as consistent_sampling leaves them
    mvr_sample = []
    for i in sel:
        c = cards[i]
        dev = (mvr_world or {}).get(i)
        if dev == "unfindable":
            mvr_sample.append(CVR(id=c.id, votes={}, phantom=True))
        elif dev == "discrepant":
            mvr_sample.append(CVR(id=c.id, votes={k: {"B": True} for k in c.votes}, phantom=False))
        else:
            mvr_sample.append(CVR(id=c.id, votes={k: dict(v) for k, v in c.votes.items()}, phantom=False))
    sample_order = {}
    for pos, i in enumerate(sel):
        sample_order.setdefault(cards[i].id, {"selection_order": pos, "serial": i + 1})
    cvr_sample = cvr_sample[::-1]
    CVR.prep_comparison_sample(mvr_sample, cvr_sample, sample_order)
    out = {}
    for c in IDS:
        if thr[IDS.index(c)] is None:
            out[c] = []
            continue
        con = cons[c]
        if con.assertions is None:
            con.assertions = Assertion.make_plurality_assertions(con, winner=["A"], loser=["B"], test=con.test, estim=con.estim)
            for a in con.assertions.values():
                a.margin = 0.5
                a.test.u = 2 / (2 - 0.5)
        asn = next(iter(con.assertions.values()))
        seen = []
        orig = Assertion.overstatement_assorter.__get__(asn)

        def rec_oa(mvr=None, cvr=None, use_style=True, _seen=seen, _orig=orig):
            _seen.append(cvr.id)
            return _orig(mvr, cvr, use_style=use_style)

        asn.overstatement_assorter = rec_oa
        asn.mvrs_to_data(mvr_sample, cvr_sample)
        out[c] = seen
    return out, mvr_sample, cvr_sample, cons


PLAN_AUDIT = Audit.from_dict({"seed": 1, "sim_seed": 2, "quantile": 0.5, "error_rate_1": 0.01, "error_rate_2": 0.05, "reps": None,
                              "strata": {"s": {"max_cards": 5, "use_style": True, "replacement": False}}})


def p_clause(styles, nums, prev, new, mvr_world, test):
    """same contests carried over two rounds: p non-increasing, proved monotone"""
    cards, cons = build(styles, nums, dict(zip(IDS, prev[0])), dict(zip(IDS, prev[2])), test)
    res = []
    for st in (prev, new):
        sizes, sel, thr = st
        active = {c: cons[c] for c, t_ in zip(IDS, thr) if t_ is not None}
        _, mv, cv, _ = data_ids(styles, nums, st, mvr_world, test, cons=cons, cards=cards)
        if active:
            Assertion.set_p_values(active, mv, cv)
            if st is prev:  # between the rounds the auditors plan the next one from assumed error rates (no effect on evidence)
                with contextlib.redirect_stdout(io.StringIO()), warnings.catch_warnings():
                    warnings.simplefilter("ignore")
                    try:
                        PLAN_AUDIT.find_sample_size(contests=active, cvrs=cards)
                    except Exception as e:  # noqa
                        raise RuntimeError(f"planning step (Audit.find_sample_size from assumed rates) raised {type(e).__name__}: {str(e)[:60]}")
        res.append({c: [(a.p_value, bool(a.proved), len(a.p_history)) for a in cons[c].assertions.values()] if cons[c].assertions else [] for c in IDS})
    return res


def mvr_worlds(n, limit):
    ws = [None]
    for i in range(n):
        ws.append({i: "discrepant" if i % 2 == 0 else "unfindable"})
    return ws[:limit]


def judge_transition(styles, nums, prev, new, newsizes, mode, cache, pl, stats=None):
    out = []
    if new[0] == "depends-on-confirmation":
        return [(f"C10|{mode}|selection-depends-on-confirmation-state", f"{mode}: {new[1]} (previous selection {list(prev[1])}, sizes {list(prev[0])} -> {list(newsizes)})")]
    if new[0] == "exc":
        return [(f"C10|{mode}|exception|{new[1].split(':')[0]}", f"{mode}: consistent_sampling raised {new[1]} (previous selection {list(prev[1])}, sizes {list(prev[0])} -> {list(newsizes)})")]
    sizes, sel, thr = new
    if len(set(sel)) != len(sel):
        out.append((f"C10|{mode}|card-selected-twice", f"{mode}: selection {list(sel)} repeats a card (previous {list(prev[1])}, sizes {list(prev[0])} -> {list(sizes)})"))
    if not set(prev[1]) <= set(sel):
        out.append((f"C10|{mode}|previous-cards-dropped", f"{mode}: previous selection {list(prev[1])} not contained in {list(sel)}"))
    cards = [(nums[i], frozenset(styles[i])) for i in range(len(styles))]
    # every state of the search was produced by this process with smaller sizes, so the previous selection lies inside the
    # sample for the new sizes: redrawn or continued, the round must select exactly every contest's first n_c cards (C07's
    # sentence for the new sizes) and leave each threshold at the contest's n_c-th card
    want_sel, want_thr, _ = RS.consistent_sample(cards, dict(zip(IDS, sizes)))
    if list(sel) != want_sel:
        out.append((f"C10|{mode}|not-the-single-round-sample" if mode == "redraw" else "C10|continue|not-the-sample-for-the-new-sizes",
                    f"{mode} with sizes {list(sizes)} selected {list(sel)}, every contest's first cards give {want_sel} (previous selection {list(prev[1])})"))
    elif any(sizes[i] >= 1 and thr[i] != want_thr[c] for i, c in enumerate(IDS)):
        out.append((f"C10|{mode}|threshold", f"{mode} with sizes {list(sizes)}: thresholds {list(thr)}, the contests' n_c-th cards have sample numbers {[want_thr.get(c) for c in IDS]}"))
    if out:
        return out
    try:
        if prev not in cache:
            cache[prev] = data_ids(styles, nums, prev)[0]
        if new not in cache:
            cache[new] = data_ids(styles, nums, new)[0]
    except Exception as e:  # noqa
        return [(f"C10|{mode}|data-exception|{type(e).__name__}", f"{mode}: building test data raised {type(e).__name__}: {str(e)[:80]}")]
    dp, dn = cache[prev], cache[new]
    for c in IDS:
        if dn[c][: len(dp[c])] != dp[c]:
            out.append((f"C10|{mode}|data-not-appended", f"{mode}: contest {c}: data came from cards {dp[c]} in the previous round and {dn[c]} now (not the old sequence with new cards appended)"))
        elif len(set(dn[c])) != len(dn[c]):
            out.append((f"C10|{mode}|data-repeats-card", f"{mode}: contest {c}: data sequence {dn[c]} uses a card twice"))
        if stats is not None and mode == "continue" and len(dn[c]) < sizes[IDS.index(c)]:
            stats["stalled"] = stats.get("stalled", 0) + 1
    if out:
        return out
    for test in pl["tests"]:
        for w in mvr_worlds(len(styles), pl["mvr_worlds"]):
            try:
                r0, r1 = p_clause(styles, nums, prev, new, w, test)
            except Exception as e:  # noqa
                out.append((f"C10|{mode}|p-value-exception|{type(e).__name__}", f"set_p_values raised {type(e).__name__}: {str(e)[:80]}"))
                return out
            for c in IDS:
                for (p0, pr0, l0), (p1, pr1, l1) in zip(r0[c], r1[c]):
                    if prev[2][IDS.index(c)] is None:
                        continue
                    if stats is not None:
                        stats["pp"] = stats.get("pp", 0) + 1
                        if pr0 and pr1:
                            stats["pk"] = stats.get("pk", 0) + 1
                    if p1 > p0 * (1 + 1e-12) or (p1 != p1):
                        out.append((f"C10|{mode}|p-value-increased|{test}", f"{mode}: contest {c}: measured risk rose from {p0} to {p1} (MVR world {w})"))
                    if pr0 and not pr1:
                        out.append((f"C10|{mode}|confirmation-lost|{test}", f"{mode}: contest {c}: assertion confirmed at p={p0} became unconfirmed at p={p1}"))
                    if l1 < l0:
                        out.append((f"C10|{mode}|history-shrank", f"{mode}: contest {c}: history length {l0} -> {l1}"))
            if out:
                return out
    return out


def events(sizes, avail, subset):
    open_ = [i for i, c in enumerate(IDS) if sizes[i] < avail[c]]
    evs = [(i,) for i in open_]
    if subset and len(open_) == 2:
        evs.append(tuple(open_))
    for ev in evs:
        ns = list(sizes)
        for i in ev:
            ns[i] += 1
        yield ev, tuple(ns)


def explore_world(styles, nums, pl, rec):
    n = len(styles)
    avail = {c: sum(1 for s in styles if c in s) for c in IDS}
    init = ((0, 0), (), (None, None))
    seen = {init}
    frontier = deque([init])
    cache = {}
    stats = {}
    order = sorted(range(n), key=lambda i: nums[i])
    rec.state()
    while frontier:
        st = frontier.popleft()
        exhausted = True
        for ev, ns in events(st[0], avail, pl["subset_events"]):
            exhausted = False
            for mode in ("redraw", "continue"):
                new = step(styles, nums, st, ns, mode)
                rec.trans()
                rec.evals()
                rec.vac(f"{mode}_transitions")
                v = judge_transition(styles, nums, st, new, ns, mode, cache, pl, stats)
                rec.observe((styles, nums, st, ev, mode, new))
                if st[1]:
                    last = max(order.index(i) for i in st[1])
                    if any(order.index(i) < last and i not in st[1] for i in range(n)):
                        rec.vac("transitions_after_skipped_card")
                        rec.outcome((styles, nums, st, ev, mode))
                if new[0] not in ("exc", "depends-on-confirmation") and any(len(styles[i]) == 2 for i in new[1]):
                    rec.vac("transitions_card_two_contests")
                    rec.outcome((styles, nums, st, ev, mode))
                for key, what in v:
                    rec.violate(key, what, {"styles": [list(s) for s in styles], "nums": list(nums), "prev": [list(st[0]), list(st[1]), list(st[2])],
                                            "newsizes": list(ns), "mode": mode, "phantoms": PHANTOM_WORLD["on"]})
                if new[0] not in ("exc", "depends-on-confirmation") and not v and new not in seen:
                    seen.add(new)
                    frontier.append(new)
                    rec.state()
                if rec.want_sample((styles, nums, st, ev, mode)):
                    rec.sample({"styles": [list(s) for s in styles], "sample_nums": list(nums), "state(sizes,selected,thresholds)": [list(st[0]), list(st[1]), list(st[2])],
                                "event": f"raise {[IDS[i] for i in ev]} then {mode}", "successor": None if new[0] in ("exc", "depends-on-confirmation") else [list(new[0]), list(new[1]), list(new[2])]})
        if exhausted:
            rec.trace()
    rec.vac("continue_rounds_stalled_below_request(diagnostic)", stats.get("stalled", 0))
    rec.vac("p_value_pairs_compared", stats.get("pp", 0))
    rec.vac("proved_then_still_proved", stats.get("pk", 0))


def worlds(pl):
    menu = s4.style_menu(2)
    for n, perms in pl["worlds"]:
        ps = list(itertools.permutations(range(n))) if perms == "all" else perms
        for styles in itertools.product(menu, repeat=n):
            for perm in ps:
                # a third of the worlds: the smallest sample number is 0; a third: huge numbers that differ by 1 part in 10^18;
                # a third: negative numbers
                k = (len(styles[0]) + perm[0]) % 3
                yield (styles, tuple(10 * p for p in perm) if k == 0 else (tuple(10 ** 18 + p for p in perm) if k == 1 else tuple(p - n for p in perm)))


def run_shard(sh, rec):
    pl, ws = sh
    for styles, nums in ws:
        for ph in (False, True):
            if ph and len(styles) < 2:
                continue
            PHANTOM_WORLD["on"] = ph
            if ph:
                rec.vac("worlds_with_phantom_cards")
            explore_world(styles, nums, pl, rec)
    PHANTOM_WORLD["on"] = False


def explore(tier, seed):
    pl = plan(tier)
    ws = list(worlds(pl))
    chunk = max(1, len(ws) // 256)
    shards = [(pl, ws[i:i + chunk]) for i in range(0, len(ws), chunk)]
    rec = core.pmap(run_shard, shards, seed, progress="C10")
    if tier == "thorough":
        from . import c10_tla
        c10_tla.run(rec, (4, 5))
    return rec


def run_case(case):
    if case.get("kind") == "tla":
        from . import c10_tla
        return c10_tla.run_case(case)
    styles = [tuple(s) for s in case["styles"]]
    nums = tuple(case["nums"])
    PHANTOM_WORLD["on"] = bool(case.get("phantoms"))
    prev = (tuple(case["prev"][0]), tuple(case["prev"][1]), tuple(case["prev"][2]))
    new = step(styles, nums, prev, tuple(case["newsizes"]), case["mode"])
    return judge_transition(styles, nums, prev, new, tuple(case["newsizes"]), case["mode"], {}, plan("thorough"))
