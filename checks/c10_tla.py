"""
C10, second model: tla/Escalation.tla is checked by TLC (invariants + action properties), its complete
labelled state graph is dumped, and EVERY edge is replayed on the implementation in both modes
(redraw and continue): the implementation state is reconstructed from the source node, the round is
applied by the real consistent_sampling, and the result is compared with the target node.
"""
import json
import os
import re
import shutil
import subprocess
import tempfile

from shangrla.core.Audit import CVR

from . import s4

HERE = os.path.dirname(os.path.abspath(__file__))
TLA = os.path.join(os.path.dirname(HERE), "tla")
IDS = s4.CONTESTS[:2]
NODE = re.compile(r'^(-?\d+) \[label="(.*?)"')
EDGE = re.compile(r'^(-?\d+) -> (-?\d+) \[label="(.*?)"')


def parse_val(txt):
    t = txt.replace("<<", "[").replace(">>", "]").replace("{", "[").replace("}", "]")
    return json.loads(t)


def parse_state(label):
    st = {}
    for part in label.split("\\n"):
        part = part.replace("/\\\\ ", "").replace("/\\ ", "").strip()
        if " = " in part:
            k, v = part.split(" = ", 1)
            st[k.strip()] = parse_val(v)
    return st


def run_tlc(ncards):
    if shutil.which("tlc") is None:
        return None, "tlc not on PATH"
    work = tempfile.mkdtemp(prefix="vmc-tlc-", dir="/dev/shm" if os.path.isdir("/dev/shm") else None)
    try:
        shutil.copy(os.path.join(TLA, "Escalation.tla"), work)
        with open(os.path.join(TLA, "Escalation.cfg")) as f:
            cfg = re.sub(r"NCards = \d+", f"NCards = {ncards}", f.read())
        with open(os.path.join(work, "Escalation.cfg"), "w") as f:
            f.write(cfg)
        dot = os.path.join(work, "graph.dot")
        p = subprocess.run(["tlc", "-workers", "4", "-deadlock", "-noGenerateSpecTE", "-metadir", os.path.join(work, "meta"),
                            "-dump", "dot,actionlabels", dot, "Escalation.tla"], cwd=work, capture_output=True, text=True, timeout=1800)
        out = p.stdout + p.stderr
        ok = "Model checking completed. No error has been found." in out
        m = re.search(r"(\d+) states generated, (\d+) distinct states found", out)
        nodes, edges = {}, []
        if os.path.exists(dot):
            with open(dot) as f:
                for line in f:
                    e = EDGE.match(line)
                    if e:
                        edges.append((e.group(1), e.group(2), e.group(3)))
                        continue
                    n = NODE.match(line)
                    if n:
                        nodes[n.group(1)] = parse_state(n.group(2))
        return {"ok": ok, "generated": int(m.group(1)) if m else 0, "distinct": int(m.group(2)) if m else 0, "nodes": nodes, "edges": edges,
                "tail": out[-600:]}, None
    finally:
        shutil.rmtree(work, ignore_errors=True)


def replay_edge(src, dst, mode):
    """apply one round of the implementation to the state of node src; compare with node dst"""
    n = len(src["style"])
    styles = [tuple(IDS[c - 1] for c in st) for st in src["style"]]
    nums = [10 * i for i in range(n)]  # card i+1 has the (i+1)-th smallest sample number (the smallest is 0)
    cards = s4.make_cards(styles, nums)
    cons = s4.make_contests(IDS, {IDS[0]: dst["size"][0], IDS[1]: dst["size"][1]})
    for j, c in enumerate(IDS):
        t = src["thr"][j]
        cons[c].sample_threshold = None if t == 0 else nums[t - 1]
    prev = sorted(i - 1 for i in src["sampled"])
    for i in prev:
        cards[i].sampled = True
    try:
        if mode == "redraw":
            sel = CVR.consistent_sampling(cards, cons)
        else:
            sel = CVR.consistent_sampling(cards, cons, sampled_cvr_indices=list(prev))
    except Exception as e:  # noqa
        return f"{mode}: raised {type(e).__name__}: {str(e)[:60]}"
    got = sorted(int(i) + 1 for i in sel)
    if len(set(sel)) != len(sel):
        return f"{mode}: implementation selected a card twice: {list(sel)}"
    if got != sorted(dst["sampled"]):
        return f"{mode}: implementation selects cards {got}, model state has {sorted(dst['sampled'])}"
    thr = [0 if cons[c].sample_threshold is None else nums.index(cons[c].sample_threshold) + 1 for c in IDS]
    want_thr = [dst["thr"][j] if dst["size"][j] > 0 else thr[j] for j in range(2)]
    if thr != want_thr:
        return f"{mode}: implementation thresholds {thr}, model {dst['thr']}"
    if list(sel) != sorted(sel, key=lambda i: nums[i]):
        return f"{mode}: selection {list(sel)} not reported in sample-number order"
    return None


def run(rec, ncards=(4,)):
    for n in ncards:
        res, err = run_tlc(n)
        if res is None:
            rec.cap(f"TLC second model skipped: {err}")
            continue
        rec.notes[f"tlc_n{n}"] = f"generated={res['generated']} distinct={res['distinct']} edges={len(res['edges'])} ok={res['ok']}"
        if not res["ok"]:
            rec.violate("C10|tla|model-violates-its-own-properties", f"TLC reported an error in tla/Escalation.tla (NCards={n}): {res['tail'][-300:]}", {"kind": "tla", "n": n, "edge": None})
            continue
        if len(res["nodes"]) != res["distinct"]:
            rec.cap(f"TLC dump has {len(res['nodes'])} nodes but TLC found {res['distinct']} distinct states")
        rec.state(len(res["nodes"]))
        for a, b, label in res["edges"]:
            rec.trans()
            for mode in (label.strip().lower(),):  # the edge's own action: Redraw or Continue
                rec.evals()
                rec.trace()
                rec.vac("tla_edges_replayed")
                msg = replay_edge(res["nodes"][a], res["nodes"][b], mode)
                rec.observe(("tla", a, b, mode, msg))
                if msg:
                    rec.violate(f"C10|tla|{mode}|implementation-leaves-the-model", f"edge {label}: {msg} (source {res['nodes'][a]})",
                                {"kind": "tla", "n": n, "src": res["nodes"][a], "dst": res["nodes"][b], "mode": mode})


def run_case(case):
    if case.get("src") is None:
        res, err = run_tlc(case["n"])
        return [] if (res and res["ok"]) else [("C10|tla|model-violates-its-own-properties", "TLC reports an error")]
    msg = replay_edge(case["src"], case["dst"], case["mode"])
    return [(f"C10|tla|{case['mode']}|implementation-leaves-the-model", msg)] if msg else []
