"""C11 -- reported p-values are well-formed and the overall value matches the history (S1 trie)."""
import math

from vmc import core
from . import s1

ID = "C11"
RULE = (
    "every prefix (trie node) of length 1..N (or 1..H for N=inf) over the dyadic grid {u*i/k}, for every "
    "configuration of the menu (test x estimator/bet x (u,t) x N x tuning parameters x random_order); a case is "
    "(configuration, prefix); an outcome is non-trivial when the reported p-value is strictly between 0 and 1; "
    "distinct = distinct (configuration, p, history) triples.  Plus, for the six tests with the alternative / bet / padding that makes "
    "a factor exactly 0 possible (eta = u, lambda = 1/t... g = 0): the samples u^n 0 u, u^n 0 0 and 0 u^n 0 for every n up to 170 with t = 1/128 "
    "(thorough: up to 1100 with t = 1/2), where the running product leaves the floating-point range before the zero arrives; and betting_mart (IID) with the largest legal "
    "bet lambda = 1/t, written 1/t or obtained from eta_to_lam(u, t), for t = 1/100..99/100, u in {0.7, 1, 2}, every 0/u sample of length <= 3"
)
ASSUMPTIONS = [
    "values restricted to dyadic grids so that sums are exact in binary floating point",
    "Wald SPRT with finite N and random_order=False is refused by documented contract and only counted as skipped",
    "comparison tolerance 1e-12 for p == min(history) / last(history)",
]
REQUIRE_VAC = ["p_strictly_inside", "mu_eq_0", "mu_gt_u", "mu_lt_0", "x_eq_mu", "random_order_false_nodes", "samples_driving_the_product_out_of_range", "largest_legal_bet_cases"]


def bounds(tier):
    cfgs = s1.configs(tier, ro_values=(True, False))
    return {
        "configurations": len(cfgs),
        "shapes(N,H,k)": sorted({(c["N"], c["H"], c["k"]) for c in cfgs}, key=str),
        "u,t": sorted({(c["u"], c["t"]) for c in cfgs}),
        "random_order": [True, False],
    }


def judge(cfg, idx, obs):
    """violations for one node: list of (key, what)"""
    out = []
    mk = s1.method_key(cfg)
    n = len(idx)
    ro = cfg.get("ro", True)
    if obs["exc"] is not None:
        return [(f"C11|{mk}|exception|{obs['exc'].split(':')[0]}", f"{mk}: test raised {obs['exc']}")]
    p, h = obs["p"], obs["hist"]
    if obs.get("arg_type"):
        out.append((f"C11|{mk}|argument-type", f"{mk}: {obs['arg_type']}"))
    if obs.get("ro_late_differs"):
        out.append((f"C11|{mk}|random-order-declaration-changed-later", f"{mk}: a test object whose random_order attribute is set to {ro} after construction does not answer like one built with it "
                    f"(overall p must be the {'smallest' if ro else 'last'} history entry)"))
    if p != p:
        out.append((f"C11|{mk}|p-nan", f"{mk}: overall p-value is NaN"))
    elif not (0 <= p <= 1):
        out.append((f"C11|{mk}|p-out-of-range", f"{mk}: overall p-value {p} outside [0,1]"))
    if len(h) != n:
        out.append((f"C11|{mk}|history-length", f"{mk}: history has {len(h)} entries for {n} observations"))
        return out
    if any(v != v for v in h):
        out.append((f"C11|{mk}|history-nan", f"{mk}: history contains NaN"))
    elif any(not (0 <= v <= 1) for v in h):
        out.append((f"C11|{mk}|history-out-of-range", f"{mk}: history entry outside [0,1]: {[v for v in h if not 0 <= v <= 1][:3]}"))
    if p == p and not any(v != v for v in h):
        want = min(h) if ro else h[-1]
        if abs(p - want) > 1e-12 * max(1.0, abs(want)) and not (p == want):
            out.append(
                (
                    f"C11|{mk}|overall-vs-history|ro={ro}",
                    f"{mk}: random_order={ro} but overall p={p} != {'min' if ro else 'last'}(history)={want}",
                )
            )
    return out


def run_cfg(cfg, rec):
    trie = s1.build_trie(cfg, rec)
    g = s1.grid(cfg)
    u = s1.fr(cfg["u"])
    for idx, obs in trie.items():
        xs = [g[i] for i in idx]
        rec.observe((s1.label(cfg), idx, obs["p"], obs["hist"], obs["exc"]))
        mus = s1.exact_mu(cfg, xs)
        if cfg["N"] is not None:
            if any(m == 0 for m in mus):
                rec.vac("mu_eq_0")
            if any(m == u for m in mus):
                rec.vac("mu_eq_u")
            if any(m > u for m in mus):
                rec.vac("mu_gt_u")
            if any(m < 0 for m in mus):
                rec.vac("mu_lt_0")
        if any(x == m for x, m in zip(xs, mus)):
            rec.vac("x_eq_mu")
        if len(idx) == 1:
            rec.vac("length_1_samples")
        if not cfg.get("ro", True):
            rec.vac("random_order_false_nodes")
        if obs["p"] is not None and 0 < obs["p"] < 1:
            rec.vac("p_strictly_inside")
            rec.outcome((s1.label(cfg), obs["p"], obs["hist"]))
        for key, what in judge(cfg, idx, obs):
            rec.violate(key, what, {"cfg": cfg, "idx": list(idx)})
        if rec.want_sample((s1.label(cfg), idx)):
            rec.sample({"config": s1.label(cfg), "x": [str(v) for v in xs], "p": obs["p"], "history": obs["hist"], "exc": obs["exc"]})


# ---------------------------------------------------------------- products that leave the floating-point range
def range_cases(tier):
    """(method, t, N, shape, n): samples u^n 0 u, u^n 0 0, 0 u^n 0 (u = 1) for EVERY n in 0..n_max: a long favourable run
    takes the running product past the largest float (or below the smallest), and a later factor of exactly 0 (or inf)
    must not turn the history into NaN.  Small t makes the product overflow within 160 draws, t = 1/2 needs 1024."""
    methods = [("kaplan_wald", None, None, {"g": 0}), ("kaplan_markov", None, None, {"g": 0}), ("kaplan_kolmogorov", None, None, {"g": 0}),
               ("alpha_mart", None, None, {"eta": "1"}), ("wald_sprt", None, None, {"eta": "1"}), ("betting_mart", None, "fixed_bet", {"lam": "1"})]
    out = []
    for m in methods:
        for t, nmax in (("1/128", 170),) + ((("1/2", 1100),) if tier == "thorough" else ()):
            for N in ((None,) if m[0] in ("kaplan_wald", "kaplan_markov") else ((10 ** 6,) if m[0] == "kaplan_kolmogorov" else (None, 10 ** 6))):
                out.append((m, t, N, nmax))
    return out


def range_judge(m, t, N, shape, n, ro):
    cfg = {"test": m[0], "estim": m[1], "bet": m[2], "kw": m[3], "u": "1", "t": t, "N": N, "H": None, "k": 2, "ro": ro}
    xs = {"u^n 0 u": [1.0] * n + [0.0, 1.0], "u^n 0 0": [1.0] * n + [0.0, 0.0], "0 u^n 0": [0.0] + [1.0] * n + [0.0]}[shape]
    import numpy as np
    import warnings
    with warnings.catch_warnings():
        warnings.simplefilter("ignore")
        try:
            p, h = s1.make(cfg).test(np.array(xs))
            obs = {"exc": None, "p": float(p), "hist": [float(v) for v in np.asarray(h, dtype=float).ravel()]}
        except Exception as e:  # noqa
            obs = {"exc": f"{type(e).__name__}: {str(e)[:80]}", "p": None, "hist": None}
    return [(k + "|beyond-float-range", w + f" [sample {shape} with n={n}, t={t}, N={N}]") for k, w in judge(cfg, tuple(range(len(xs))), obs)]


def run_range(sh, rec):
    _, m, t, N, nmax = sh
    for n in range(0, nmax + 1):
        rec.state()
        for shape in ("u^n 0 u", "u^n 0 0", "0 u^n 0"):
            for ro in (True, False):
                if m[0] == "wald_sprt" and N is not None and not ro:
                    continue
                rec.trans()
                rec.evals()
                rec.vac("samples_driving_the_product_out_of_range")
                for key, what in range_judge(m, t, N, shape, n, ro):
                    rec.violate(key, what, {"range": True, "m": [m[0], m[1], m[2], m[3]], "t": t, "N": N, "shape": shape, "n": n, "ro": ro})


# ---------------------------------------------------------------- bets at the edge of what is allowed
def edge_judge(u, t100, how, xs, ro):
    """IID sampling, null mean t = t100/100 (not a binary fraction), the largest legal bet lambda = 1/t, obtained either as
    1/t or from the library's own eta_to_lam(u, t): a draw of 0 makes the factor 1 - lambda t, which is 0 up to rounding"""
    import numpy as np
    import warnings
    from shangrla.core.NonnegMean import NonnegMean
    t = t100 / 100
    with warnings.catch_warnings():
        warnings.simplefilter("ignore")
        try:
            lam = 1 / t if how == "1/t" else float(NonnegMean(u=u, t=t).eta_to_lam(u, t))
            nm = NonnegMean(test=NonnegMean.betting_mart, bet=NonnegMean.fixed_bet, u=u, N=np.inf, t=t, lam=lam, random_order=ro)
            p, h = nm.test(np.array(xs, dtype=float))
            obs = {"exc": None, "p": float(p), "hist": [float(v) for v in np.asarray(h, dtype=float).ravel()]}
        except Exception as e:  # noqa
            obs = {"exc": f"{type(e).__name__}: {str(e)[:80]}", "p": None, "hist": None}
    cfg = {"test": "betting_mart", "estim": None, "bet": "fixed_bet", "kw": {}, "u": str(u), "t": f"{t100}/100", "N": None, "H": None, "k": 1, "ro": ro}
    return [(k + "|largest-legal-bet", w + f" [u={u}, t={t100}/100, lambda = {how} = {lam!r}, sample {xs}]") for k, w in judge(cfg, tuple(range(len(xs))), obs)]


def run_edge(sh, rec):
    import itertools
    _, u = sh
    for t100 in range(1, 100):
        if t100 / 100 >= u:
            continue
        rec.state()
        for how in ("1/t", "eta_to_lam(u,t)"):
            for n in (1, 2, 3):
                for xs in itertools.product((0.0, float(u)), repeat=n):
                    for ro in (True, False):
                        rec.trans()
                        rec.evals()
                        rec.vac("largest_legal_bet_cases")
                        for key, what in edge_judge(u, t100, how, list(xs), ro):
                            rec.violate(key, what, {"edge": True, "u": u, "t100": t100, "how": how, "xs": list(xs), "ro": ro})


def run_shard(sh, rec):
    if isinstance(sh, tuple) and sh and sh[0] == "range":
        return run_range(sh, rec)
    if isinstance(sh, tuple) and sh and sh[0] == "edge":
        return run_edge(sh, rec)
    return run_cfg(sh, rec)


def explore(tier, seed):
    cfgs = s1.configs(tier, ro_values=(True, False)) + s1.nd_configs(tier) + s1.long_configs(tier) + s1.bign_configs(tier) + s1.vlong_configs(tier) + s1.near_tie_configs(tier)
    rec = core.pmap(run_shard, cfgs + [("range",) + c for c in range_cases(tier)] + [("edge", 1), ("edge", 2), ("edge", 0.7)], seed, progress="C11")
    rec.vac("skipped_sprt_finiteN_not_random_order", sum(1 for _ in []))
    return rec


def run_case(case):
    if case.get("edge"):
        return edge_judge(case["u"], case["t100"], case["how"], case["xs"], case["ro"])
    if case.get("range"):
        m = case["m"]
        return range_judge((m[0], m[1], m[2], m[3]), case["t"], case["N"], case["shape"], case["n"], case["ro"])
    cfg, idx = case["cfg"], tuple(case["idx"])
    g = s1.grid(cfg)
    obs = s1.observe(cfg, [g[i] for i in idx])
    return judge(cfg, idx, obs)
