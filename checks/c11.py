"""C11 -- reported p-values are well-formed and the overall value matches the history (S1 trie)."""
import math

from vmc import core
from . import s1

ID = "C11"
RULE = (
    "every prefix (trie node) of length 1..N (or 1..H for N=inf) over the dyadic grid {u*i/k}, for every "
    "configuration of the menu (test x estimator/bet x (u,t) x N x tuning parameters x random_order); a case is "
    "(configuration, prefix); an outcome is non-trivial when the reported p-value is strictly between 0 and 1; "
    "distinct = distinct (configuration, p, history) triples"
)
ASSUMPTIONS = [
    "values restricted to dyadic grids so that sums are exact in binary floating point",
    "Wald SPRT with finite N and random_order=False is refused by documented contract and only counted as skipped",
    "comparison tolerance 1e-12 for p == min(history) / last(history)",
]
REQUIRE_VAC = ["p_strictly_inside", "mu_eq_0", "mu_gt_u", "mu_lt_0", "x_eq_mu", "random_order_false_nodes"]


def bounds(tier):
    cfgs = s1.configs(tier, ro_values=(True, False))
    return {
        "configurations": len(cfgs),
        "shapes(N,H,k)": sorted({(c["N"], c["H"], c["k"]) for c in cfgs}, key=str),
        "u,t": sorted({(c["u"], c["t"]) for c in cfgs}),
        "random_order": [True, False],
    }


def judge(cfg, idx, obs):
    """violations for one node: list of (key, what)"""
    out = []
    mk = s1.method_key(cfg)
    n = len(idx)
    ro = cfg.get("ro", True)
    if obs["exc"] is not None:
        return [(f"C11|{mk}|exception|{obs['exc'].split(':')[0]}", f"{mk}: test raised {obs['exc']}")]
    p, h = obs["p"], obs["hist"]
    if p != p:
        out.append((f"C11|{mk}|p-nan", f"{mk}: overall p-value is NaN"))
    elif not (0 <= p <= 1):
        out.append((f"C11|{mk}|p-out-of-range", f"{mk}: overall p-value {p} outside [0,1]"))
    if len(h) != n:
        out.append((f"C11|{mk}|history-length", f"{mk}: history has {len(h)} entries for {n} observations"))
        return out
    if any(v != v for v in h):
        out.append((f"C11|{mk}|history-nan", f"{mk}: history contains NaN"))
    elif any(not (0 <= v <= 1) for v in h):
        out.append((f"C11|{mk}|history-out-of-range", f"{mk}: history entry outside [0,1]: {[v for v in h if not 0 <= v <= 1][:3]}"))
    if p == p and not any(v != v for v in h):
        want = min(h) if ro else h[-1]
        if abs(p - want) > 1e-12 * max(1.0, abs(want)) and not (p == want):
            out.append(
                (
                    f"C11|{mk}|overall-vs-history|ro={ro}",
                    f"{mk}: random_order={ro} but overall p={p} != {'min' if ro else 'last'}(history)={want}",
                )
            )
    return out


def run_cfg(cfg, rec):
    trie = s1.build_trie(cfg, rec)
    g = s1.grid(cfg)
    u = s1.fr(cfg["u"])
    for idx, obs in trie.items():
        xs = [g[i] for i in idx]
        rec.observe((s1.label(cfg), idx, obs["p"], obs["hist"], obs["exc"]))
        mus = s1.exact_mu(cfg, xs)
        if cfg["N"] is not None:
            if any(m == 0 for m in mus):
                rec.vac("mu_eq_0")
            if any(m == u for m in mus):
                rec.vac("mu_eq_u")
            if any(m > u for m in mus):
                rec.vac("mu_gt_u")
            if any(m < 0 for m in mus):
                rec.vac("mu_lt_0")
        if any(x == m for x, m in zip(xs, mus)):
            rec.vac("x_eq_mu")
        if len(idx) == 1:
            rec.vac("length_1_samples")
        if not cfg.get("ro", True):
            rec.vac("random_order_false_nodes")
        if obs["p"] is not None and 0 < obs["p"] < 1:
            rec.vac("p_strictly_inside")
            rec.outcome((s1.label(cfg), obs["p"], obs["hist"]))
        for key, what in judge(cfg, idx, obs):
            rec.violate(key, what, {"cfg": cfg, "idx": list(idx)})
        if rec.want_sample((s1.label(cfg), idx)):
            rec.sample({"config": s1.label(cfg), "x": [str(v) for v in xs], "p": obs["p"], "history": obs["hist"], "exc": obs["exc"]})


def explore(tier, seed):
    cfgs = s1.configs(tier, ro_values=(True, False)) + s1.nd_configs(tier) + s1.long_configs(tier) + s1.bign_configs(tier) + s1.vlong_configs(tier)
    rec = core.pmap(run_cfg, cfgs, seed, progress="C11")
    rec.vac("skipped_sprt_finiteN_not_random_order", sum(1 for _ in []))
    return rec


def run_case(case):
    cfg, idx = case["cfg"], tuple(case["idx"])
    g = s1.grid(cfg)
    obs = s1.observe(cfg, [g[i] for i in idx])
    return judge(cfg, idx, obs)
