"""C12 -- test statistics equal their published definitions; ALPHA and betting forms agree (S1 trie)."""
import itertools
import warnings
from fractions import Fraction as F

import numpy as np

from shangrla.core.NonnegMean import NonnegMean
from vmc import core
from vmc.ref import martingales as M
from . import s1

ID = "C12"
RULE = (
    "every prefix (trie node) over the dyadic grid for every configuration, plus 'long thin' samples (short prefix then a constant run, to length 24/40); the reported history is compared entry by "
    "entry with the published product evaluated in exact rational arithmetic (eta_i / lambda_i taken from the library's "
    "own estimator or bet); plus, for every betting configuration and node, the ALPHA form driven by "
    "eta_i = mu_i(1+lambda_i(u-mu_i)) must reproduce the betting history; plus the two conversion functions on a "
    "(lambda, mu, u) lattice; plus ALPHA with eta = u against betting with lambda = eta_to_lam(u, t) for t = 1/100..99/100 (IID, every 0/u sample of length <= 3). Non-trivial = node with at least one compared entry strictly between 0 and 1; distinct = "
    "distinct (configuration, history)"
)
ASSUMPTIONS = [
    "relative tolerance 1e-9 between float history and exact rational value",
    "indices where mu_i is exactly 0 or u (0/0 in the product) are skipped and counted; C11/C01 still constrain them",
    "eta_i / lambda_i are taken from the library's estimator/bet (their legitimacy is C05/C13's business)",
    "the ALPHA-versus-betting comparison stops at the first draw whose betting factor is below 1e-6 in absolute value (there the conversion of the bet into an alternative is ill-conditioned in floating point)",
    "for the SPRT, either the raw or the [0,u]-clipped fixed-alternative sequence is accepted; an alternative at or below the null mean (inside the documented range (0,u), but no alternative to 'mean <= t') counts as the null mean itself",
]
REQUIRE_VAC = ["entries_compared", "entries_strictly_inside", "singular_entries_skipped", "equiv_nodes"]
REL = 1e-9


def bounds(tier):
    cfgs = s1.configs(tier)
    return {"configurations": len(cfgs), "shapes(N,H,k)": sorted({(c["N"], c["H"], c["k"]) for c in cfgs}, key=str),
            "conversion_lattice": "lam in {0,1/8..2} x mu in (0,u) step u/8 x u in {3/4,1,9/8,5/4,2}"}


def reference(cfg, xs, obs):
    """list of reference entries, possibly two alternative lists (SPRT)"""
    t, u, N = s1.fr(cfg["t"]), s1.fr(cfg["u"]), cfg["N"]
    kw = cfg["kw"]
    test = cfg["test"]
    if test == "alpha_mart":
        if not isinstance(obs["eta"], list):
            return None
        return [M.alpha(N, t, u, xs, [M.to_frac(e) for e in obs["eta"]])]
    if test == "betting_mart":
        if not isinstance(obs["lam"], list):
            return None
        return [M.betting(N, t, u, xs, [M.to_frac(e) for e in obs["lam"]])]
    if test == "kaplan_kolmogorov":
        return [M.kaplan_kolmogorov(N, t, s1.fr(kw.get("g", "0")), xs)]
    if test == "kaplan_markov":
        return [M.kaplan_markov(t, s1.fr(kw.get("g", "0")), xs)]
    if test == "kaplan_wald":
        return [M.kaplan_wald(t, s1.fr(kw.get("g", "0")), xs)]
    if test == "wald_sprt":
        # no eta given: the constructor's documented default initial alternative, t + (u - t)/2
        eta = s1.fr(kw["eta"]) if "eta" in kw else t + (u - t) / 2
        return [M.sprt(N, t, u, xs, eta, clip=False), M.sprt(N, t, u, xs, eta, clip=True)]
    raise ValueError(test)


def match(ent, v):
    kind, val = ent
    if kind == "skip":
        return None
    vals = [val] if kind == "eq" else val
    for w in vals:
        if s1.feq(float(w), v, rel=REL, abs_=1e-300):
            return True
    return False


def judge(cfg, idx, obs, stats=None):
    mk = s1.method_key(cfg)
    if obs["exc"] is not None or obs["hist"] is None:
        return []  # C11's business
    if obs.get("int_differs"):
        return [(f"C12|{mk}|integer-typed-sample", f"{mk}: the same sample gives a different history when it (or the bound u) is passed with an integer type")]
    g = s1.grid(cfg)
    xs = [g[i] for i in idx]
    refs = reference(cfg, xs, obs)
    if refs is None:
        return []
    h = obs["hist"]
    if len(h) != len(xs):
        return []
    best = None
    for ref in refs:
        bad = []
        ncmp = nskip = nin = 0
        for j, (ent, v) in enumerate(zip(ref, h)):
            r = match(ent, v)
            if r is None:
                nskip += 1
            else:
                ncmp += 1
                if 0 < v < 1:
                    nin += 1
                if not r:
                    bad.append((j, ent, v))
        if best is None or len(bad) < len(best[0]):
            best = (bad, ncmp, nskip, nin)
    bad, ncmp, nskip, nin = best
    if stats is not None:
        stats["cmp"] += ncmp
        stats["skip"] += nskip
        stats["in"] += nin
    out = []
    if bad:
        j, ent, v = bad[0]
        kind = "zero-rule" if (ent[0] == "eq" and ent[1] == 0) else ("one-rule" if (ent[0] == "eq" and ent[1] == 1) else "product")
        exp = ent[1] if ent[0] == "eq" else ent[1]
        out.append((f"C12|{mk}|history-vs-definition|{kind}",
                    f"{mk}: history[{j}]={v} but the definition gives {core.clean(exp if not isinstance(exp, F) else float(exp))}"))
    return out


def equiv_judge(cfg, idx):
    """betting history must equal the ALPHA history driven by eta = mu(1+lam(u-mu))"""
    g = s1.grid(cfg)
    xs = [g[i] for i in idx]
    x = np.array([float(v) for v in xs])
    mk = s1.method_key(cfg)
    with warnings.catch_warnings():
        warnings.simplefilter("ignore")
        try:
            nb = s1.make(cfg)
            pb, hb = nb.test(x.copy())
            helper = s1.make(cfg)

            def est(self, xx, **kw):
                _S, _Stot, _j, m = self.sjm(self.N, self.t, xx)
                with np.errstate(all="ignore"):
                    return self.lam_to_eta(helper.bet(np.array(xx)), m)

            kw = {k: float(s1.fr(v)) if isinstance(v, str) else v for k, v in cfg["kw"].items()}
            na = NonnegMean(test=NonnegMean.alpha_mart, estim=est, u=float(s1.fr(cfg["u"])),
                            N=cfg["N"] if cfg["N"] is not None else np.inf, t=float(s1.fr(cfg["t"])), **kw)
            pa, ha = na.test(x.copy())
        except Exception as e:  # noqa
            return [], 0
    mus = s1.exact_mu(cfg, xs)
    u = s1.fr(cfg["u"])
    ncmp = 0
    try:
        lam_f = np.asarray(helper.bet(x.copy()), dtype=float) * np.ones(len(x))
    except Exception:  # noqa
        lam_f = None
    for j, (a, b) in enumerate(zip(ha, hb)):
        # compared at every index, also where mu_j is 0 or u: the two forms must follow the same convention there
        if a != a or b != b:
            continue
        if lam_f is not None and abs(1 + lam_f[j] * (float(xs[j]) - float(mus[j]))) < 1e-6:
            # a factor this close to 0 is mostly rounding error of the bet (lambda within an ulp of 1/mu): from here on the
            # two forms agree only as far as eta = mu(1 + lambda(u - mu)) can be represented, i.e. not to 1e-9
            break
        ncmp += 1
        if not s1.feq(float(a), float(b), rel=REL, abs_=1e-300):
            return [(f"C12|{mk}|alpha-vs-betting", f"{mk}: betting history[{j}]={b} but equivalent ALPHA gives {a}")], ncmp
    return [], ncmp


def run_cfg(cfg, rec):
    trie = s1.build_trie(cfg, rec)
    stats = {"cmp": 0, "skip": 0, "in": 0}
    for idx, obs in trie.items():
        before = stats["in"]
        v = judge(cfg, idx, obs, stats)
        rec.observe((s1.label(cfg), idx, obs["hist"]))
        if stats["in"] > before:
            rec.outcome((s1.label(cfg), obs["hist"]))
        for key, what in v:
            rec.violate(key, what, {"kind": "node", "cfg": cfg, "idx": list(idx)})
        if cfg["test"] == "betting_mart":
            ev, n = equiv_judge(cfg, idx)
            rec.evals(2)
            if n:
                rec.vac("equiv_nodes")
                rec.vac("equiv_entries_compared", n)
            for key, what in ev:
                rec.violate(key, what, {"kind": "equiv", "cfg": cfg, "idx": list(idx)})
        if rec.want_sample((s1.label(cfg), idx)):
            g = s1.grid(cfg)
            refs = reference(cfg, [g[i] for i in idx], obs)
            rec.sample({"config": s1.label(cfg), "x": [str(g[i]) for i in idx], "history": obs["hist"],
                        "definition": None if refs is None else [[e[0], core.clean(e[1])] for e in refs[0]]})
    rec.vac("entries_compared", stats["cmp"])
    rec.vac("singular_entries_skipped", stats["skip"])
    rec.vac("entries_strictly_inside", stats["in"])


def conv_cases():
    for u in ["3/4", "1", "9/8", "5/4", "2"]:
        uf = F(u)
        for i in range(1, 8):
            mu = uf * i / 8
            for l8 in range(0, 17):
                yield (u, str(mu), str(F(l8, 8)))


def conv_judge(case):
    u, mu, lam = (float(F(s)) for s in case)
    nm = NonnegMean(u=u)
    out = []
    eta = nm.lam_to_eta(lam, mu)
    want = F(case[1]) * (1 + F(case[2]) * (F(case[0]) - F(case[1])))
    if not s1.feq(float(want), float(eta)):
        out.append(("C12|lam_to_eta|formula", f"lam_to_eta({lam},{mu}) u={u} gives {eta}, definition {float(want)}"))
    back = nm.eta_to_lam(eta, mu)
    if not s1.feq(float(back), lam, abs_=1e-12):
        out.append(("C12|conversion|not-inverse", f"eta_to_lam(lam_to_eta({lam},{mu}),{mu}) = {back} (u={u})"))
    # other direction on an eta lattice
    eta2 = float(F(case[0]) * F(case[2]) / 2)  # eta in [0,u]
    lam2 = nm.eta_to_lam(eta2, mu)
    want2 = (F(eta2) / F(case[1]) - 1) / (F(case[0]) - F(case[1]))
    if not s1.feq(float(want2), float(lam2), abs_=1e-12):
        out.append(("C12|eta_to_lam|formula", f"eta_to_lam({eta2},{mu}) u={u} gives {lam2}, definition {float(want2)}"))
    if not s1.feq(float(nm.lam_to_eta(lam2, mu)), eta2, abs_=1e-12):
        out.append(("C12|conversion|not-inverse", f"lam_to_eta(eta_to_lam({eta2},{mu}),{mu}) != {eta2} (u={u})"))
    # vectorised call must agree with scalar call
    v = nm.lam_to_eta(np.array([lam, lam2]), np.array([mu, mu]))
    if not (s1.feq(float(v[0]), float(eta)) and s1.feq(float(v[1]), eta2, abs_=1e-12)):
        out.append(("C12|conversion|vector-vs-scalar", "array call of lam_to_eta disagrees with scalar call"))
    return out


def edge_equiv_judge(u, t100, xs):
    """IID, t = t100/100 (not a binary fraction): ALPHA with the largest alternative eta = u and betting with the bet the
    library's own eta_to_lam(u, t) converts it to (lambda = 1/t up to rounding) must report the same history"""
    t = t100 / 100
    with warnings.catch_warnings():
        warnings.simplefilter("ignore")
        try:
            lam = float(NonnegMean(u=u, t=t).eta_to_lam(u, t))
            pa, ha = NonnegMean(test=NonnegMean.alpha_mart, u=u, N=np.inf, t=t, eta=u).test(np.array(xs, dtype=float))
            pb, hb = NonnegMean(test=NonnegMean.betting_mart, bet=NonnegMean.fixed_bet, u=u, N=np.inf, t=t, lam=lam).test(np.array(xs, dtype=float))
        except Exception as e:  # noqa
            return [(f"C12|edge-equivalence|exception|{type(e).__name__}", f"{type(e).__name__}: {str(e)[:80]}")]
    for j, (a, b) in enumerate(zip(np.asarray(ha, dtype=float), np.asarray(hb, dtype=float))):
        if a != a and b != b:
            continue
        if not s1.feq(float(a), float(b), rel=REL, abs_=1e-300):
            return [("C12|betting_mart+fixed_bet|alpha-vs-betting|eta=u", f"u={u}, t={t100}/100, eta = u, lambda = eta_to_lam(u,t) = {lam!r}, sample {xs}: ALPHA history[{j}] = {a}, "
                     f"betting history[{j}] = {b}")]
    return []


def run_conv(_, rec):
    for u in (0.7, 1, 2):
        for t100 in range(1, 100):
            if t100 / 100 >= u:
                continue
            rec.state()
            for n in (1, 2, 3):
                for xs in itertools.product((0.0, float(u)), repeat=n):
                    rec.trans()
                    rec.evals(2)
                    rec.vac("edge_equivalence_cases")
                    for key, what in edge_equiv_judge(u, t100, list(xs)):
                        rec.violate(key, what, {"kind": "edge", "u": u, "t100": t100, "xs": list(xs)})
    for case in conv_cases():
        rec.state()
        rec.trans()
        rec.evals(5)
        rec.vac("conversion_points")
        for key, what in conv_judge(case):
            rec.violate(key, what, {"kind": "conv", "case": list(case)})


# ---------------------------------------------------------------- the product leaves the floating-point range and comes back
RECOVERY = [
    ({"test": "alpha_mart", "estim": None, "bet": None, "kw": {"eta": "3/4"}, "u": "1", "t": "1/128", "N": None, "H": None, "k": 2, "ro": True}, 2, 0, 560),
    ({"test": "wald_sprt", "estim": None, "bet": None, "kw": {"eta": "3/4"}, "u": "1", "t": "1/128", "N": None, "H": None, "k": 2, "ro": True}, 2, 0, 560),
    ({"test": "kaplan_wald", "estim": None, "bet": None, "kw": {"g": "1/8"}, "u": "1", "t": "1/128", "N": None, "H": None, "k": 2, "ro": True}, 2, 0, 380),
    ({"test": "alpha_mart", "estim": None, "bet": None, "kw": {"eta": "3/4"}, "u": "1", "t": "1/128", "N": None, "H": None, "k": 2, "ro": False}, 2, 0, 560),
]


def recovery_judge(cfg, up, down, n_up, n_down):
    """n_up large draws take the product above the largest float, n_down small ones bring it back below 1 (no factor is 0
    or infinite): every history entry is still min(1, 1/T_j) of the exact product"""
    idx = (up,) * n_up + (down,) * n_down
    g = s1.grid(cfg)
    obs = s1.observe(cfg, [g[i] for i in idx])
    return [(k + "|beyond-float-range", w + f" [{n_up} draws of {g[up]} then {n_down} of {g[down]}]") for k, w in judge(cfg, idx, obs)]


def run_recovery(sh, rec):
    _, i = sh
    cfg, up, down, n_down = RECOVERY[i]
    for n_up in (150, 160, 170):
        rec.state()
        rec.trans()
        rec.evals()
        rec.vac("products_leaving_the_float_range_and_returning")
        for key, what in recovery_judge(cfg, up, down, n_up, n_down):
            rec.violate(key, what[:400], {"kind": "recovery", "i": i, "n_up": n_up})


def run_shard(sh, rec):
    if sh == "conv":
        run_conv(sh, rec)
    elif isinstance(sh, tuple) and sh[0] == "recovery":
        run_recovery(sh, rec)
    else:
        run_cfg(sh, rec)


def explore(tier, seed):
    return core.pmap(run_shard, ["conv"] + [("recovery", i) for i in range(len(RECOVERY))] + s1.configs(tier) + s1.long_configs(tier) + s1.bign_configs(tier) + s1.vlong_configs(tier) + s1.near_tie_configs(tier), seed, progress="C12")


def run_case(case):
    if case["kind"] == "recovery":
        cfg, up, down, n_down = RECOVERY[case["i"]]
        return recovery_judge(cfg, up, down, case["n_up"], n_down)
    if case["kind"] == "edge":
        return edge_equiv_judge(case["u"], case["t100"], case["xs"])
    if case["kind"] == "conv":
        return conv_judge(tuple(case["case"]))
    cfg, idx = case["cfg"], tuple(case["idx"])
    if case["kind"] == "equiv":
        return equiv_judge(cfg, idx)[0]
    g = s1.grid(cfg)
    obs = s1.observe(cfg, [g[i] for i in idx])
    return judge(cfg, idx, obs)
