"""C13 -- shipped estimators and bets keep every martingale factor non-negative (S1 trie + closed-form sweep)."""
import warnings
from fractions import Fraction as F

import numpy as np

from shangrla.core.NonnegMean import NonnegMean
from vmc import core
from . import s1

ID = "C13"
RULE = (
    "every prefix (trie node) over the dyadic grid, for every ALPHA/betting/SPRT configuration of the S1 menu extended "
    "with extreme tuning parameters (d in {1,100}, c in {1/64,1/2}, f in {0,1,10}, minsd in {1e-6,1/8}, c_grapa near 1): "
    "eta_j in [0,u]; lambda_j in [0,1/mu_j] wherever the exact mu_j is in (0,u]; shrink-truncate eta_j > mu_j whenever "
    "mu_j < u; no history entry negative.  Plus the closed-form comparison alternative for u = 1+2^-k, k=1..52, times "
    "error rates, finite and infinite N.  Non-trivial = node where a truncation/clip is active or the fixed alternative "
    "has become impossible; distinct = distinct (configuration, eta/lambda vector)"
)
ASSUMPTIONS = [
    "mu_j evaluated exactly (Fractions); eta/lambda compared exactly after conversion of the float to a Fraction, with 1e-12 relative slack on the upper ends",
]
REQUIRE_VAC = ["truncation_active", "agrapa_clip_active", "fixed_alternative_impossible", "closed_form_points"]
SLACK = F(1, 10**12)


def extra_configs(tier):
    out = []
    uts = [("1", "1/2"), ("5/4", "1/2")] if tier == "quick" else [("1", "1/2"), ("5/4", "1/2"), ("3/4", "1/2"), ("9/8", "1/2"), ("1", "1/4"), ("2", "1/2")]
    shapes = [(5, None, 2), (None, 4, 2)] if tier == "quick" else [(6, None, 2), (4, None, 4), (None, 6, 2)]
    for u, t in uts:
        uf, tf = F(u), F(t)
        etas = [tf + (uf - tf) / 8, uf - (uf - tf) / 8] if tier == "thorough" else [tf + (uf - tf) / 8]
        for N, H, k in shapes:
            for e in etas:
                for d in (1, 100):
                    for c in ("1/64", "1/2"):
                        for f in (0, 1, 10):
                            for minsd in (1e-6, "1/8"):
                                out.append({"test": "alpha_mart", "estim": "shrink_trunc", "bet": None,
                                            "kw": {"eta": str(e), "c": c, "d": d, "f": f, "minsd": minsd},
                                            "u": u, "t": t, "N": N, "H": H, "k": k, "ro": True})
            for lam in (str(1 / uf), "1/16"):
                for c0, cm, gr in ((0.999, 0.9999, 10), (0.5, 1 - 2.0 ** -52, 1), (1 - 2.0 ** -52, 1 - 2.0 ** -52, 0)):
                    out.append({"test": "betting_mart", "estim": None, "bet": "agrapa",
                                "kw": {"lam": lam, "c_grapa_0": c0, "c_grapa_max": cm, "c_grapa_grow": gr},
                                "u": u, "t": t, "N": N, "H": H, "k": k, "ro": True})
    # initial bets above 1/t: the default lam = 1/2 with a large null mean, and a user-supplied large lam
    for N, H, k in shapes[:2]:
        out.append({"test": "betting_mart", "estim": None, "bet": "agrapa", "kw": {}, "u": "8", "t": "4", "N": N, "H": H, "k": k, "ro": True})
        out.append({"test": "betting_mart", "estim": None, "bet": "agrapa", "kw": {"lam": "3"}, "u": "1", "t": "1/2", "N": N, "H": H, "k": k, "ro": True})
    return out


def all_configs(tier):
    base = [c for c in s1.configs(tier) if c["test"] in ("alpha_mart", "betting_mart", "wald_sprt")]
    return base + extra_configs(tier) + s1.nd_configs(tier) + [c for c in s1.long_configs(tier) if c["test"] in ("alpha_mart", "betting_mart", "wald_sprt")] + s1.bign_configs(tier)


def bounds(tier):
    cfgs = all_configs(tier)
    return {"configurations": len(cfgs), "of_which_extreme_parameter_configs": len(extra_configs(tier)),
            "shapes(N,H,k)": sorted({(c["N"], c["H"], c["k"]) for c in cfgs}, key=str),
            "closed_form": "u = 1+2^-k for k=1..52 x rate_error_2 in {1e-4,1e-3,1e-2,0.1} x N in {inf, 10} x samples {mixed, all at u, all zero, alternating}"}


def judge(cfg, idx, obs, flags=None):
    mk = s1.method_key(cfg)
    g = s1.grid(cfg)
    xs = [g[i] for i in idx]
    u = s1.fr(cfg["u"])
    mus = s1.exact_mu(cfg, xs)
    out = []
    eta, lam = obs["eta"], obs["lam"]
    if isinstance(eta, str):
        return []  # estimator raised: C11 reports exceptions of the test; nothing to judge here
    if isinstance(eta, list):
        for j, (e, m) in enumerate(zip(eta, mus)):
            if e != e or e in (float("inf"), float("-inf")):
                out.append((f"C13|{mk}|eta-not-finite", f"{mk}: eta_{j+1} = {e}"))
                break
            ef = F(e)
            if ef < 0 or ef > u * (1 + SLACK):
                out.append((f"C13|{mk}|eta-outside-[0,u]", f"{mk}: eta_{j+1} = {e} outside [0,{float(u)}] (mu_{j+1} = {float(m):.6g})"))
                if flags is not None:
                    flags.add("fixed_alternative_impossible")
                break
            if cfg.get("estim") == "shrink_trunc":
                if m < u and not (ef > m):
                    out.append((f"C13|{mk}|eta-not-above-mu", f"{mk}: eta_{j+1} = {e} <= mu_{j+1} = {float(m)} < u"))
                    break
                if flags is not None and m < u:
                    flags.add("truncation_active")
            if flags is not None and cfg.get("estim") in (None, "fixed_alternative_mean") and (ef == 0 or ef >= u * (1 - SLACK)):
                flags.add("fixed_alternative_impossible")
    if isinstance(lam, list):
        for j, (l, m) in enumerate(zip(lam, mus)):
            if not (0 < m <= u):
                continue
            if l != l or l in (float("inf"), float("-inf")):
                out.append((f"C13|{mk}|lambda-not-finite", f"{mk}: lambda_{j+1} = {l} with mu_{j+1} = {float(m)}"))
                break
            lf = F(l)
            if lf < 0 or lf > (1 / m) * (1 + SLACK):
                out.append((f"C13|{mk}|lambda-outside-[0,1/mu]", f"{mk}: lambda_{j+1} = {l} outside [0, 1/mu = {float(1/m)}]"))
                break
            if flags is not None and cfg.get("bet") == "agrapa" and j > 0 and (lf == 0 or lf >= (1 / m) * F(1, 2)):
                flags.add("agrapa_clip_active")
    if obs.get("u_late_differs"):
        out.append((f"C13|{mk}|bound-installed-after-construction", f"{mk}: a test object whose u is assigned after construction (as the audit code does) gives a different history than one built with that u: something derived from u went stale"))
    h = obs["hist"]
    if h is not None and any(v == v and v < 0 for v in h):
        out.append((f"C13|{mk}|negative-history-entry", f"{mk}: history entry {[v for v in h if v == v and v < 0][0]} < 0 (a factor went negative)"))
    return out


def run_cfg(cfg, rec):
    trie = s1.build_trie(cfg, rec)
    for idx, obs in trie.items():
        flags = set()
        v = judge(cfg, idx, obs, flags)
        for f in flags:
            rec.vac(f)
        vec = obs["eta"] if obs["eta"] is not None else obs["lam"]
        rec.observe((s1.label(cfg), idx, vec, obs["hist"]))
        if flags:
            rec.outcome((s1.label(cfg), vec))
        for key, what in v:
            rec.violate(key, what, {"kind": "node", "cfg": cfg, "idx": list(idx)})
        if rec.want_sample((s1.label(cfg), idx)):
            g = s1.grid(cfg)
            rec.sample({"config": s1.label(cfg), "x": [str(g[i]) for i in idx], "eta": obs["eta"], "lambda": obs["lam"],
                        "mu": [str(m) for m in s1.exact_mu(cfg, [g[i] for i in idx])]})


def closed_cases():
    for k in range(1, 53):
        for r in (1e-4, 1e-3, 1e-2, 0.1):
            for N in (None, 10):
                yield {"k": k, "rate": r, "N": N}


def closed_judge(case):
    u = 1 + 2.0 ** -case["k"]
    out = []
    with warnings.catch_warnings():
        warnings.simplefilter("ignore")
        nm = NonnegMean(test=NonnegMean.alpha_mart, estim=NonnegMean.optimal_comparison, u=u,
                        N=case["N"] if case["N"] else np.inf, t=1 / 2, rate_error_2=case["rate"])
        # an ordinary sample, and the extreme ones: all at the bound (the total passes N t, the null mean of the rest goes
        # negative), all zero (the null mean passes u), alternating
        for name, xl in (("mixed", [u / 2, u / 2, 0.0, u / 2]), ("all-u", [u] * 9), ("all-0", [0.0] * 9), ("alternating", [u, 0.0] * 4)):
            x = np.array(xl)
            with np.errstate(all="ignore"):
                e = np.asarray(nm.estim(x), dtype=float)
            vals = [float(v) for v in (e.ravel() if e.ndim else [e])]
            bad = [v for v in vals if not (v == v) or v < 0 or v > u * (1 + 1e-12)]
            if bad:
                out.append((f"C13|alpha_mart+optimal_comparison|eta-outside-[0,u]",
                            f"optimal_comparison: eta = {bad[0]} outside [0,u] for u = 1+2^-{case['k']}, rate_error_2 = {case['rate']}, N = {case['N']}, sample {name}"))
            p, h = nm.test(x)
            if any(v == v and v < 0 for v in np.asarray(h, dtype=float)):
                out.append((f"C13|alpha_mart+optimal_comparison|negative-history-entry",
                            f"optimal_comparison: negative history entry for u = 1+2^-{case['k']}, rate_error_2 = {case['rate']}, N = {case['N']}, sample {name}"))
            if out:
                break
    return out


def run_shard(sh, rec):
    if sh == "closed":
        for case in closed_cases():
            rec.state()
            rec.trans()
            rec.evals(2)
            rec.vac("closed_form_points")
            for key, what in closed_judge(case):
                rec.violate(key, what, {"kind": "closed", "case": case})
    else:
        run_cfg(sh, rec)


def explore(tier, seed):
    return core.pmap(run_shard, ["closed"] + all_configs(tier), seed, progress="C13")


def run_case(case):
    if case["kind"] == "closed":
        return closed_judge(case["case"])
    cfg, idx = case["cfg"], tuple(case["idx"])
    g = s1.grid(cfg)
    return judge(cfg, idx, s1.observe(cfg, [g[i] for i in idx]))
