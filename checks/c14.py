"""C14 -- RAIRE and the audit interpret every ranked ballot identically (S2: rankings x assertions; file readers)."""
import itertools
import os
import shutil
import tempfile

from shangrla.core.Audit import CVR, Assertion, Audit, Contest
from shangrla.raire import raire_utils as RU

from vmc import core
from vmc.ref import raire as R
from . import s2r

ID = "C14"
RULE = (
    "(a) every partial ranking over n candidates (and a card lacking the contest) x every ordered (winner, loser) pair x "
    "every eliminated set E not containing them: the ballot is written once as a RAIRE-format row, read by both readers, "
    "and the audit-side assorter value (assertion built through make_assertions_from_json) is compared with "
    "(w - l + 1)/2 from the generator's own is_vote_for_winner/loser (again with the card's {candidate: rank} dictionary keyed in reverse and by name; and every pair of "
    "assertions built together through one make_assertions_from_json call must come back as two assertions scoring all rankings as the generator's do; and every card carrying TWO ranked contests with the same candidate labels, every pair of rankings, one card object scored by every assertion for the first contest, the second, and the first again, the card built directly and read from a two-contest file by both readers); (b) RAIRE-format files with 1-2 contests, repeated "
    "ballot identifiers across contests and all rankings as ballots: both readers must induce the same preference order "
    "on every (ballot, contest); (c) every assertion returned by compute_raire_assertions on the profile lattice, "
    "re-applied to the CVRs through its own predicates, must reproduce its reported tallies.  Non-trivial = (ballot, "
    "assertion) with assorter value != 1/2; distinct = distinct (n, ballot, assertion, value)"
)
ASSUMPTIONS = ["duplicate-free rankings only (as the property states)", "candidate identifiers without commas or surrounding blanks"]
REQUIRE_VAC = ["assorter_values_0", "assorter_values_1", "NEN_assertions_reapplied", "reader_ballots_compared", "files_read", "assertion_pairs_built_together", "pairs_with_same_winner_and_loser", "cards_with_two_ranked_contests", "two_contest_cards_scored_differently_in_the_two_contests", "two_contest_files_read_and_scored"]
PLAN = {"quick": {"ns": [2, 3, 4], "reapply": [(3, 4), (4, 2)], "twocon": 3}, "thorough": {"ns": [2, 3, 4, 5], "reapply": [(3, 6), (4, 3), (5, 2)], "twocon": 4}}
TMP = "/dev/shm" if os.path.isdir("/dev/shm") else None


def bounds(tier):
    return {"candidates": PLAN[tier]["ns"], "reapplication_lattice (n, max ballots)": PLAN[tier]["reapply"], "contests_per_file": [1, 2], "two_contest_cards_up_to_candidates": PLAN[tier]["twocon"]}


def raire_file_text(contests, blank_trailing_comma=False):
    """contests: list of (cid, n, [(ballot_id, ranking tuple)]); blank ballots may be written 'contest,ballot,' (as the RAIRE
    files shipped with the library write them) instead of 'contest,ballot'"""
    lines = [str(len(contests))]
    for cid, n, _ in contests:
        lines.append(",".join(["Contest", cid, str(n)] + [s2r.NAMES[c] for c in range(n)] + ["winner", s2r.NAMES[0]]))
    for cid, n, rows in contests:
        for bid, r in rows:
            lines.append(",".join([cid, bid] + [s2r.NAMES[c] for c in r]) + ("," if (blank_trailing_comma and not r) else ""))
    return "\n".join(lines) + "\n"


def read_both(text):
    d = tempfile.mkdtemp(prefix="vmc-c14-", dir=TMP)
    try:
        p = os.path.join(d, "x.raire")
        with open(p, "w") as f:
            f.write(text)
        cvrs, n_read, n_unique = CVR.from_raire_file(p)
        contests, rcvrs = RU.load_contests_from_raire(p)
    finally:
        shutil.rmtree(d, ignore_errors=True)
    return cvrs, n_read, n_unique, contests, rcvrs


def audit_contest(n, cid="con1"):
    return Contest.from_dict({"id": cid, "name": cid, "risk_limit": 0.05, "cards": 10, "choice_function": Contest.SOCIAL_CHOICE_FUNCTION.IRV,
                              "n_winners": 1, "candidates": [s2r.NAMES[c] for c in range(n)], "winner": [s2r.NAMES[0]],
                              "audit_type": Audit.AUDIT_TYPE.CARD_COMPARISON, "test": None, "use_style": True})


def assertion_menu(n):
    out = []
    for w in range(n):
        for l in range(n):
            if w == l:
                continue
            out.append(("NEB", w, l, ()))
            rest = [c for c in range(n) if c not in (w, l)]
            for r in range(len(rest) + 1):
                for E in itertools.combinations(rest, r):
                    out.append(("NEN", w, l, E))
    return out


def build_pair(n, a, cid="con1"):
    """(audit Assertion, generator assertion) for descriptor a"""
    con = audit_contest(n, cid)
    kind, w, l, E = a
    cands = [s2r.NAMES[c] for c in range(n)]
    if kind == "NEB":
        js = [{"winner": s2r.NAMES[w], "loser": s2r.NAMES[l], "assertion_type": "WINNER_ONLY", "already_eliminated": ""}]
        gen = RU.NEBAssertion(cid, s2r.NAMES[w], s2r.NAMES[l])
    else:
        js = [{"winner": s2r.NAMES[w], "loser": s2r.NAMES[l], "assertion_type": "IRV_ELIMINATION",
               "already_eliminated": [s2r.NAMES[c] for c in E]}]
        gen = RU.NENAssertion(cid, s2r.NAMES[w], s2r.NAMES[l], [s2r.NAMES[c] for c in E])
    asn = Assertion.make_assertions_from_json(contest=con, candidates=cands, json_assertions=js)
    assert len(asn) == 1
    return next(iter(asn.values())), gen


def judge_ballot(n, r, a, acvr=None, rcvr=None):
    """r: ranking tuple or None (card lacks the contest)"""
    if acvr is None:
        if r is None:
            acvr, rcvr = CVR(id="b", votes={"other": {"X": 1}}), {"other": {"X": 0}}
        else:
            cv, _, _, _, rc = read_both(raire_file_text([("con1", n, [("b", r)])]))
            acvr, rcvr = cv[0], rc["b"]
    asn, gen = build_pair(n, a)
    try:
        val = asn.assorter.assort(acvr)
    except Exception as e:  # noqa
        return [(f"C14|assorter-exception|{type(e).__name__}", f"audit assorter raised {type(e).__name__}: {e}")], None
    wv, lv = gen.is_vote_for_winner(rcvr), gen.is_vote_for_loser(rcvr)
    want = (wv - lv + 1) / 2
    # independent reference as a third opinion (the generator itself is the oracle the property names)
    rw, rl = R.counts_for((a[0], a[1], a[2]) if a[0] == "NEB" else (a[0], a[1], a[2], frozenset(a[3])), r)
    out = []
    if val != want:
        out.append((f"C14|assorter-vs-generator|{a[0]}",
                    f"{a[0]} {s2r.NAMES[a[1]]}>{s2r.NAMES[a[2]]} elim {[s2r.NAMES[c] for c in a[3]]}: ballot "
                    f"{'<no contest>' if r is None else '>'.join(s2r.NAMES[c] for c in r) or '<blank>'}: audit assorter {val}, generator says "
                    f"winner={wv} loser={lv} -> {want}"))
    if (wv, lv) != (rw, rl):
        out.append((f"C14|generator-vs-definition|{a[0]}", f"generator verdict ({wv},{lv}) differs from the definition ({rw},{rl})"))
    # the same ballot with its {candidate: rank} dictionary keyed in another order (reversed / by name) is the same ballot
    if r is not None and len(r) >= 2 and "con1" in acvr.votes:
        items = list(acvr.votes["con1"].items())
        for label, perm in (("reversed", items[::-1]), ("sorted by name", sorted(items))):
            if perm == items:
                continue
            try:
                val2 = asn.assorter.assort(CVR(id="b2", votes={"con1": dict(perm)}))
            except Exception as e:  # noqa
                out.append((f"C14|assorter-exception|{type(e).__name__}", f"audit assorter raised {type(e).__name__}: {e}"))
                break
            if val2 != want:
                out.append((f"C14|assorter-depends-on-dict-order|{a[0]}", f"ballot {'>'.join(s2r.NAMES[c] for c in r)} with its vote dictionary keyed {label}: assorter {val2}, "
                            f"generator verdicts give {want}"))
                break
    return out, val


def judge_two_contest_card(n, r1, r2, built=None):
    """one card carrying two ranked contests whose candidates bear the same labels (RAIRE files number the candidates of
    every contest alike): ONE card object is scored by every assertion of the menu for the first contest, then the same
    assertion for the second contest, then the first again; each value must be what the generator's verdicts on that
    contest's ranking give"""
    if built is None:
        built = {a: (build_pair(n, a, "con1"), build_pair(n, a, "con2")) for a in assertion_menu(n)}
    acvr = CVR(id="b", votes={"con1": {s2r.NAMES[c]: k + 1 for k, c in enumerate(r1)}, "con2": {s2r.NAMES[c]: k + 1 for k, c in enumerate(r2)}})
    rcvr = {"con1": {s2r.NAMES[c]: k for k, c in enumerate(r1)}, "con2": {s2r.NAMES[c]: k for k, c in enumerate(r2)}}
    out, vals = [], []
    for a, ((asn1, gen1), (asn2, gen2)) in built.items():
        want1 = (gen1.is_vote_for_winner(rcvr) - gen1.is_vote_for_loser(rcvr) + 1) / 2
        want2 = (gen2.is_vote_for_winner(rcvr) - gen2.is_vote_for_loser(rcvr) + 1) / 2
        try:
            got = (asn1.assorter.assort(acvr), asn2.assorter.assort(acvr), asn1.assorter.assort(acvr))
        except Exception as e:  # noqa
            return [(f"C14|assorter-exception|{type(e).__name__}", f"audit assorter raised {type(e).__name__}: {e}")], vals
        vals.append(got[:2])
        if got != (want1, want2, want1):
            show = lambda r: ">".join(s2r.NAMES[c] for c in r) or "<blank>"  # noqa
            out.append((f"C14|two-contests-on-one-card|{a[0]}", f"card with con1 {show(r1)} and con2 {show(r2)}: {a[0]} {s2r.NAMES[a[1]]}>{s2r.NAMES[a[2]]} elim "
                        f"{[s2r.NAMES[c] for c in a[3]]} scored for con1, con2, con1 again: {got}; the generator's verdicts give {(want1, want2, want1)}"))
            break
    return out, vals


def judge_two_contest_file(n, i, built=None):
    """the same cards written as ONE RAIRE-format file with two contests over the same labels and shared ballot identifiers,
    read by both readers: the audit reader's card objects are scored for con1, con2, con1 against the generator's verdicts
    on the generator reader's ballots"""
    if built is None:
        built = {a: (build_pair(n, a, "con1"), build_pair(n, a, "con2")) for a in assertion_menu(n)}
    alpha = list(R.rankings(n))
    try:
        cvs, _, _, _, rcvrs = read_both(raire_file_text([("con1", n, [(f"b{j}", alpha[i]) for j in range(len(alpha))]), ("con2", n, [(f"b{j}", r2) for j, r2 in enumerate(alpha)])]))
    except Exception as e:  # noqa
        return [(f"C14|reader-exception|{type(e).__name__}", f"reading a two-contest file raised {type(e).__name__}: {e}")]
    if {c.id for c in cvs} != set(rcvrs) or len(cvs) != len(alpha):
        return [("C14|readers|ballot-set", f"two-contest file: audit reader {len(cvs)} cards, generator reader {len(rcvrs)}, written {len(alpha)}")]
    for c in cvs:
        for a, ((asn1, gen1), (asn2, gen2)) in built.items():
            want1 = (gen1.is_vote_for_winner(rcvrs[c.id]) - gen1.is_vote_for_loser(rcvrs[c.id]) + 1) / 2
            want2 = (gen2.is_vote_for_winner(rcvrs[c.id]) - gen2.is_vote_for_loser(rcvrs[c.id]) + 1) / 2
            try:
                got = (asn1.assorter.assort(c), asn2.assorter.assort(c), asn1.assorter.assort(c))
            except Exception as e:  # noqa
                return [(f"C14|assorter-exception|{type(e).__name__}", f"audit assorter raised {type(e).__name__}: {e}")]
            if got != (want1, want2, want1):
                return [(f"C14|two-contests-on-one-card-from-file|{a[0]}", f"ballot {c.id} of a two-contest file (audit reader: {c.votes}): {a[0]} {s2r.NAMES[a[1]]}>{s2r.NAMES[a[2]]} elim "
                         f"{[s2r.NAMES[x] for x in a[3]]} scored for con1, con2, con1 again: {got}; the generator's verdicts on its own reading give {(want1, want2, want1)}")]
    return []


def run_twocon_shard(sh, rec):
    _, n, i = sh
    alpha = list(R.rankings(n))
    built = {a: (build_pair(n, a, "con1"), build_pair(n, a, "con2")) for a in assertion_menu(n)}
    for r2 in alpha:
        v, vals = judge_two_contest_card(n, alpha[i], r2, built)
        rec.state()
        rec.trans()
        rec.evals(5 * len(built))
        rec.trace()
        rec.vac("cards_with_two_ranked_contests")
        if any(x != y for x, y in vals):
            rec.vac("two_contest_cards_scored_differently_in_the_two_contests")
        rec.observe((n, alpha[i], r2, tuple(vals)))
        for key, what in v:
            rec.violate(key, what, {"kind": "twocon", "n": n, "r1": list(alpha[i]), "r2": list(r2)})
    for key, what in judge_two_contest_file(n, i, built):
        rec.violate(key, what, {"kind": "twocon-file", "n": n, "i": i})
    rec.evals(2)
    rec.vac("two_contest_files_read_and_scored")


def judge_pair(n, a1, a2):
    """two assertions handed to make_assertions_from_json in one list: two audit assertions come back, and their assorters'
    value vectors over all rankings are those of the two generator assertions"""
    con = audit_contest(n)
    cands = [s2r.NAMES[c] for c in range(n)]
    js, gens = [], []
    for kind, w, l, E in (a1, a2):
        if kind == "NEB":
            js.append({"winner": s2r.NAMES[w], "loser": s2r.NAMES[l], "assertion_type": "WINNER_ONLY", "already_eliminated": ""})
            gens.append(RU.NEBAssertion("con1", s2r.NAMES[w], s2r.NAMES[l]))
        else:
            js.append({"winner": s2r.NAMES[w], "loser": s2r.NAMES[l], "assertion_type": "IRV_ELIMINATION", "already_eliminated": [s2r.NAMES[c] for c in E]})
            gens.append(RU.NENAssertion("con1", s2r.NAMES[w], s2r.NAMES[l], [s2r.NAMES[c] for c in E]))
    try:
        asn = Assertion.make_assertions_from_json(contest=con, candidates=cands, json_assertions=js)
    except Exception as e:  # noqa
        return [(f"C14|pair|exception|{type(e).__name__}", f"make_assertions_from_json raised {type(e).__name__}: {str(e)[:80]}")]
    if len(asn) != 2:
        return [("C14|pair|assertion-lost", f"{len(asn)} audit assertion(s) built from the two assertions {js} (labels {list(asn)})")]
    ranks = [r_ for r_ in R.rankings(n)]
    want = sorted(tuple((g.is_vote_for_winner({"con1": {s2r.NAMES[c]: k for k, c in enumerate(r_)}}) - g.is_vote_for_loser({"con1": {s2r.NAMES[c]: k for k, c in enumerate(r_)}}) + 1) / 2
                        for r_ in ranks) for g in gens)
    got = sorted(tuple(x.assorter.assort(CVR(id="b", votes={"con1": {s2r.NAMES[c]: k + 1 for k, c in enumerate(r_)}})) for r_ in ranks) for x in asn.values())
    if got != want:
        return [("C14|pair|assorters-differ-from-generator", f"the audit assertions built from {js} do not score the {len(ranks)} rankings as the generator's two assertions do")]
    return []


def run_assorter_shard(sh, rec):
    _, n, a = sh
    alpha = list(R.rankings(n))
    text = raire_file_text([("con1", n, [(f"b{i}", r) for i, r in enumerate(alpha)])])
    cvs, n_read, n_unique, _, rcvrs = read_both(text)
    rec.evals(2)
    byid = {c.id: c for c in cvs}
    for i, r in enumerate(alpha + [None]):
        rec.state()
        rec.trans()
        if r is None:
            v, val = judge_ballot(n, None, a)
        else:
            v, val = judge_ballot(n, r, a, byid[f"b{i}"], rcvrs[f"b{i}"])
        rec.evals(3)
        rec.trace()
        rec.observe((n, r, a, val))
        if val is not None and val != 0.5:
            rec.outcome((n, r, a, val))
            rec.vac("assorter_values_0" if val == 0 else "assorter_values_1")
        for key, what in v:
            rec.violate(key, what, {"kind": "assort", "n": n, "ranking": None if r is None else list(r), "assertion": [a[0], a[1], a[2], list(a[3])]})
        if rec.want_sample((n, r, a)):
            rec.sample({"candidates": n, "ballot": None if r is None else [s2r.NAMES[c] for c in r], "assertion": [a[0], s2r.NAMES[a[1]], s2r.NAMES[a[2]], [s2r.NAMES[c] for c in a[3]]], "assorter_value": val})


def reader_cases(n):
    """file layouts: one contest; two contests with shared ballot ids (second contest has its own rankings, rotated)"""
    alpha = list(R.rankings(n))
    one = [("con1", n, [(f"b{i}", r) for i, r in enumerate(alpha)])]
    rot = alpha[1:] + alpha[:1]
    m = max(2, n - 1)
    alpha2 = list(R.rankings(m))
    two = [("con1", n, [(f"b{i}", r) for i, r in enumerate(alpha)]),
           ("con2", m, [(f"b{i}", alpha2[i % len(alpha2)]) for i in range(0, len(alpha), 2)] + [("only2", alpha2[-1])])]
    inter = [("con2", m, [(f"b{i}", alpha2[(i * 7) % len(alpha2)]) for i in range(len(alpha))]),
             ("con1", n, [(f"b{i}", r) for i, r in enumerate(rot)])]
    # a ballot identifier repeated inside one contest (a re-scanned / corrected record): the later row stands
    rep = [("con1", n, [(f"b{i}", r) for i, r in enumerate(alpha)] + [(f"b{i}", alpha[(i * 3 + 1) % len(alpha)]) for i in range(0, len(alpha), 3)])]
    out = {"one": one, "two-shared-ids": two, "two-reversed-header": inter, "id-repeated-in-contest": rep, "one-blank-ballots-with-trailing-comma": one,
           "one-no-final-newline": one}
    if n == 3:  # thousands of rows: every ballot's two rows are thousands of lines apart, some identifiers come back much later
        K = 7000
        out["two-shared-ids-thousands-of-rows"] = [
            ("con1", n, [(f"b{i}", alpha[i % len(alpha)]) for i in range(K)] + [(f"b{i}", alpha[(i + 1) % len(alpha)]) for i in range(0, K, 1000)]),
            ("con2", m, [(f"b{i}", alpha2[(i * 5) % len(alpha2)]) for i in range(K - 1, -1, -2)] + [("only2", alpha2[-1])])]
    return out


def judge_readers(n, layout):
    spec = reader_cases(n)[layout]
    text = raire_file_text(spec, blank_trailing_comma=layout.endswith("trailing-comma"))
    if layout.endswith("no-final-newline"):
        text = text.rstrip("\n")
    try:
        cvs, n_read, n_unique, contests, rcvrs = read_both(text)
    except Exception as e:  # noqa
        return [(f"C14|reader-exception|{type(e).__name__}", f"reading a {layout} file raised {type(e).__name__}: {e}")], 0
    out = []
    want = {}
    for cid, m, rows in spec:
        for bid, r in rows:
            want.setdefault(bid, {})[cid] = [s2r.NAMES[c] for c in r]  # a later row for the same ballot and contest replaces the earlier
    ncmp = 0
    ids = [c.id for c in cvs]
    if len(ids) != len(set(ids)) or set(ids) != set(want) or set(rcvrs) != set(want):
        out.append(("C14|readers|ballot-set", f"readers disagree on the set of ballots: audit {sorted(ids)[:5]}.. generator {sorted(rcvrs)[:5]}.."))
        return out, ncmp
    for c in cvs:
        a_side = {cid: [k for k, _ in sorted(v.items(), key=lambda kv: kv[1])] for cid, v in c.votes.items()}
        g_side = {cid: [k for k, _ in sorted(v.items(), key=lambda kv: kv[1])] for cid, v in rcvrs[c.id].items()}
        ncmp += 1
        if a_side != g_side:
            out.append(("C14|readers|preference-order", f"ballot {c.id}: audit reader {a_side}, generator reader {g_side}"))
            break
        if a_side != want[c.id]:
            out.append(("C14|readers|not-what-was-written", f"ballot {c.id}: both readers give {a_side}, file says {want[c.id]}"))
            break
        for cid, v in c.votes.items():
            if sorted(v.values()) != list(range(1, len(v) + 1)):
                out.append(("C14|readers|audit-ranks-not-1..k", f"ballot {c.id} contest {cid}: ranks {v}"))
                return out, ncmp
        for cid, v in rcvrs[c.id].items():
            if sorted(v.values()) != list(range(0, len(v))):
                out.append(("C14|readers|generator-ranks-not-0..k-1", f"ballot {c.id} contest {cid}: ranks {v}"))
                return out, ncmp
    return out, ncmp


def run_reader_shard(sh, rec):
    _, n = sh
    for layout in reader_cases(n):
        v, ncmp = judge_readers(n, layout)
        rec.state()
        rec.trans()
        rec.evals(2)
        rec.vac("files_read")
        rec.vac("reader_ballots_compared", ncmp)
        for key, what in v:
            rec.violate(key, what, {"kind": "readers", "n": n, "layout": layout})


def judge_reapply(n, prof, winner, kind):
    norm, res, cvrs = s2r.call_raire(n, prof, winner, kind)
    out = []
    nen = 0
    if not isinstance(norm, list):
        return out, 0, norm
    for a, na in zip(res, norm):
        if a is None or na is None or na[0] == "unknown":
            continue
        try:
            tw = sum(a.is_vote_for_winner(c) for c in cvrs.values())
            tl = sum(a.is_vote_for_loser(c) for c in cvrs.values())
        except Exception as e:  # noqa
            out.append((f"C14|reapply-exception|{type(e).__name__}", f"re-applying {s2r.show_assertion(na)} raised {type(e).__name__}: {e}"))
            continue
        if na[0] == "NEN":
            nen += 1
        if (tw, tl) != (a.votes_for_winner, a.votes_for_loser):
            out.append((f"C14|reapply-tallies|{na[0]}",
                        f"{s2r.show_assertion(na)} re-applied to the CVRs through its own predicates counts {tw} v {tl}"))
    return out, nen, norm


def run_reapply_shard(sh, rec):
    _, n, B, first = sh
    for prof in s2r.profiles(n, B, first):
        rec.state()
        rec.trans()
        for winner in range(n):
            for kind in ("bp", "cp"):
                v, nen, norm = judge_reapply(n, prof, winner, kind)
                rec.evals()
                rec.vac("NEN_assertions_reapplied", nen)
                rec.observe((n, prof, winner, kind, norm))
                for key, what in v:
                    rec.violate(key, what, {"kind": "reapply", "n": n, "profile": list(prof), "winner": winner, "func": kind})


def run_pair_shard(sh, rec):
    _, n, i = sh
    menu = assertion_menu(n)
    for j in range(i + 1, len(menu)):
        rec.state()
        rec.trans()
        rec.evals()
        rec.vac("assertion_pairs_built_together")
        if menu[i][1:3] == menu[j][1:3]:
            rec.vac("pairs_with_same_winner_and_loser")
        for key, what in judge_pair(n, menu[i], menu[j]):
            rec.violate(key, what, {"kind": "pair", "n": n, "a1": [menu[i][0], menu[i][1], menu[i][2], list(menu[i][3])], "a2": [menu[j][0], menu[j][1], menu[j][2], list(menu[j][3])]})


def run_shard(sh, rec):
    {"assort": run_assorter_shard, "readers": run_reader_shard, "reapply": run_reapply_shard, "pair": run_pair_shard, "twocon": run_twocon_shard}[sh[0]](sh, rec)


def explore(tier, seed):
    plan = PLAN[tier]
    sh = []
    for n in plan["ns"]:
        sh.append(("readers", n))
        for a in assertion_menu(n):
            sh.append(("assort", n, a))
        if n <= 4:
            for i in range(len(assertion_menu(n))):
                sh.append(("pair", n, i))
        if n <= plan["twocon"]:
            for i in range(len(list(R.rankings(n)))):
                sh.append(("twocon", n, i))
    for (n, B, first) in s2r.shards(plan["reapply"]):
        sh.append(("reapply", n, B, first))
    return core.pmap(run_shard, sh, seed, progress="C14")


def run_case(case):
    if case["kind"] == "assort":
        a = case["assertion"]
        r = case["ranking"]
        return judge_ballot(case["n"], None if r is None else tuple(r), (a[0], a[1], a[2], tuple(a[3])))[0]
    if case["kind"] == "pair":
        a1, a2 = case["a1"], case["a2"]
        return judge_pair(case["n"], (a1[0], a1[1], a1[2], tuple(a1[3])), (a2[0], a2[1], a2[2], tuple(a2[3])))
    if case["kind"] == "twocon":
        return judge_two_contest_card(case["n"], tuple(case["r1"]), tuple(case["r2"]))[0]
    if case["kind"] == "twocon-file":
        return judge_two_contest_file(case["n"], case["i"])
    if case["kind"] == "readers":
        return judge_readers(case["n"], case["layout"])[0]
    return judge_reapply(case["n"], tuple(case["profile"]), case["winner"], case["func"])[0]
