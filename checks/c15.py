"""C15 -- RAIRE's assertion set is the least difficult sufficient set (S2 ballot-profile lattice x search hints)."""
import itertools

from vmc import core
from vmc.ref import raire as R
from . import s2r

ID = "C15"
RULE = (
    "the C04 profile families (multisets of <= B ballots with every reported winner and every hint; weighted profiles of <= K "
    "distinct ballot types with the real winner and hints none / real elimination order / its reverse) restricted to (profile, reported winner) pairs for which the reference says an audit is "
    "possible, x both shipped difficulty functions x search hint in {none} + all n! elimination orders, agap = 0. "
    "theta* = max over alternative orders of the least difficulty among true assertions contradicting that order (equal "
    "to the min over sufficient sets of the largest difficulty, since a set is sufficient iff it hits every order); the "
    "largest difficulty in the returned list must equal theta*.  Non-trivial = run whose theta* is attained by a NEN "
    "assertion or whose answer has >= 2 assertions; distinct = distinct (n, winner, function, hint, theta*, returned set)"
)
ASSUMPTIONS = ["relative tolerance 1e-9 between float difficulties and exact rational reference", "agap = 0 only",
               "besides the two shipped difficulty functions, one caller-supplied function that decreases as the margin grows and takes negative values (minus the margin), without search hints"]
REQUIRE_VAC = ["auditable_runs", "runs_with_hint", "theta_attained_only_by_NEN", "multi_assertion_answers"]
PLAN = {"quick": [(2, 4), (3, 5), (4, 2)], "thorough": [(2, 6), (3, 6), (4, 3)]}


def bounds(tier):
    return {"weighted families (name: candidates, #types, max distinct types, weights)": {k: [v[0], len(v[1]), v[2], list(v[3])] + ([{"added to every profile": f"{len(v[4][0])} single-choice types with weights from {list(v[4][1])}"}] if len(v) > 4 else []) for k, v in s2r.families(tier).items()},
            "(candidates, max ballots)": PLAN[tier], "hints": "none + all n! elimination orders", "agap": 0}


def judge(n, prof, winner, kind, hint, norm, ana=None):
    ana = ana or R.analyse(n, prof, winner, kind)
    if not ana["possible"]:
        return []
    if isinstance(norm, tuple):
        return [(f"C15|exception|{norm[1].split(':')[0]}", f"compute_raire_assertions raised {norm[1]}")]
    real = [a for a in norm if a is not None and a[0] in ("NEB", "NEN")]
    if not real:
        return []  # C04 reports 'empty although possible'
    out = []
    theta = ana["theta"]
    got = max(a[-1] for a in real)
    if not s2r_feq(got, float(theta)):
        out.append(("C15|suboptimal" if got > float(theta) else "C15|below-optimum",
                    f"largest difficulty returned {got} but the least difficult sufficient set has {float(theta)} (hint {hint})"))
    for a in real:
        tw, tl = (a[3], a[4]) if a[0] == "NEB" else (a[4], a[5])
        if tw > tl:
            want = float(R.difficulty(kind, tw, tl, ana["total"]))
            if not s2r_feq(a[-1], want):
                out.append(("C15|difficulty-misreported", f"{s2r.show_assertion(a)} but the {kind} function of its tallies is {want}"))
                break
    return out


def s2r_feq(a, b):
    return a == b or abs(a - b) <= 1e-9 * max(abs(a), abs(b))


def hints(n):
    return [None] + [list(p) for p in itertools.permutations(range(n))]


def run_shard(sh, rec):
    if sh[0] == "wt":
        _, fam, first, part, parts = sh
        n, types, K, W, *base = s2r.families(TIER_ACTIVE)[fam]
        gen = s2r.weighted_profiles(types, K, W, first, part, parts, *base)
        B, maxB, weighted = None, None, True
        alpha = list(R.rankings(n)) + [None]
    else:
        n, B, first = sh
        maxB = max(b for m, b in PLAN_ACTIVE if m == n)
        gen = s2r.profiles(n, B, first)
        weighted = False
    for prof in gen:
        rec.state()
        rec.trans()
        if weighted:  # the real winner; hints: none, the real elimination order, and its reverse
            order = R.irv_order(n, [alpha[a] for a in prof])
            winners = [order[-1]]
            hint_list = [None, list(order), list(order[::-1])]
            rec.vac("weighted_profiles")
        else:
            winners = range(n)
            hint_list = hints(n)
        for winner in winners:
            for kind in ("bp", "cp", "neg"):
                ana = R.analyse(n, prof, winner, kind)
                if not ana["possible"]:
                    rec.vac("unauditable_skipped")
                    continue
                theta = ana["theta"]
                # some critical order (one that forces theta*) can be covered within theta* only by a NEN assertion
                crit = [k for k in ana["alt"] if ana["best"][k] == theta]
                only_nen = any(
                    not any(a[0] == "NEB" and ana["true"][a][2] <= theta and R.contradicts(a, ana["orders"][k]) for a in ana["true"])
                    for k in crit)
                for hint in (hint_list if kind != "neg" else [None]):
                    norm, _, _ = s2r.call_raire(n, prof, winner, kind, hint=hint)
                    rec.evals()
                    rec.vac("auditable_runs")
                    if hint is not None:
                        rec.vac("runs_with_hint")
                    v = judge(n, prof, winner, kind, hint, norm, ana)
                    rec.observe((n, prof, winner, kind, hint, norm))
                    multi = isinstance(norm, list) and len(norm) >= 2
                    if multi:
                        rec.vac("multi_assertion_answers")
                    if only_nen:
                        rec.vac("theta_attained_only_by_NEN")
                    if multi or only_nen:
                        rec.outcome((n, winner, kind, hint, str(theta), sorted(map(repr, norm)) if isinstance(norm, list) else norm))
                    for key, what in v:
                        rec.violate(key, what, {"n": n, "profile": list(prof), "winner": winner, "kind": kind, "hint": hint})
                    if weighted or B == maxB:
                        rec.trace()
                    if rec.want_sample((n, prof, winner, kind, hint)):
                        rec.sample({"candidates": n, "ballots": s2r.show_profile(n, prof), "reported_winner": s2r.NAMES[winner],
                                    "difficulty": kind, "hint": None if hint is None else [s2r.NAMES[c] for c in hint],
                                    "theta_star": float(theta),
                                    "returned": [s2r.show_assertion(a) for a in norm] if isinstance(norm, list) else norm})


PLAN_ACTIVE = PLAN["quick"]
TIER_ACTIVE = "quick"


def explore(tier, seed):
    global PLAN_ACTIVE, TIER_ACTIVE
    PLAN_ACTIVE = PLAN[tier]
    TIER_ACTIVE = tier
    return core.pmap(run_shard, s2r.weighted_shards(tier) + s2r.shards(PLAN[tier]), seed, progress="C15")


def run_case(case):
    n, prof, winner, kind, hint = case["n"], tuple(case["profile"]), case["winner"], case["kind"], case["hint"]
    norm, _, _ = s2r.call_raire(n, prof, winner, kind, hint=hint)
    return judge(n, prof, winner, kind, hint, norm)
