"""C16 -- sample-size estimates are first-crossing times on the assumed data (S1 + environment enumeration)."""
import argparse
import contextlib
import io
import itertools
import math
import warnings
from fractions import Fraction as F

import numpy as np

from shangrla.core.Audit import CVR, Assertion, Audit, Contest
from shangrla.core.NonnegMean import NonnegMean
from shangrla.raire import sample_estimator as SE

from vmc import core
from . import s1

ID = "C16"
RULE = (
    "(a) NonnegMean.sample_size, deterministic: every grid vector of length 1..L as pilot data x N x alpha x test/estimator "
    "menu: estimate = first index at which the real test's history on the documented population (pilot values tiled to N) is "
    "<= alpha, else N (also N = 1,500 and 5,000 with pilots that cross late); (b) simulation branch with numpy's RandomState replaced by a scripted object: every tail the generator "
    "could return (reps=1) and every window of 3 consecutive tails (reps=3) x quantile x seed: if the supplied prefix already "
    "crosses alpha at k the estimate is k, and it always lies in 1..N; also with the real generator for a seed menu; (c) "
    "Audit.find_sample_size given a sample of manual records (per-assertion data tiled; contest = max over unconfirmed assertions; with simulations on, records that cross at k < len give k for every seed / reps / quantile of a menu); "
    "Assertion.find_sample_size for comparison/ONEAudit (error-free values with one- and two-vote overstatements every "
    "floor(1/r) positions from 0; also Audit.find_sample_size for a ONEAudit contest with pooled batches before any card is examined) and polling (all tallies, interleaved), Contest/Audit.find_sample_size (= max over "
    "assertions) and raire.sample_estimator.sample_size; (d) interleave_values for all (a,b,c) in [0..6]^3: a permutation of "
    "the requested multiset.  Non-trivial = case whose estimate is strictly between 1 and N; distinct = distinct case"
)
ASSUMPTIONS = [
    "the history used to locate the first crossing is the real test's history on the reference population (its correctness is C11/C12's business)",
    "for super-majority (assorter bound u_a != 1) the one- and two-vote values are those of make_overstatement's documentation: overstatements of u_a/2 and u_a",
    "simulation estimates are judged only by the prefix-crossing clause and by range (the quantile convention is not part of the property)",
]
REQUIRE_VAC = ["estimates_strictly_inside", "estimates_equal_N", "prefix_crossing_cases", "scripted_rng_runs", "polling_tallies", "interleave_cases", "contest_level_cases", "oneaudit_audit_level_cases", "audit_level_prefix_crossing_cases", "first_round_estimates_without_style", "supermajority_comparison_estimates"]
ALPHAS = [0.05, 0.2, 0.5]


def bounds(tier):
    q = tier == "quick"
    return {"pilot vector length": "1..3" if q else "1..4", "grid": "k=2" if q else "k=2 and k=3", "N": [5, 8, 12] if q else list(range(5, 13)), "alpha": ALPHAS,
            "scripted tails": "all |x|^(N-|x|) for N-|x| <= 4" if q else "all for N-|x| <= 5", "rates": [0, 0.25, 0.28, 0.3, 0.5, 0.6], "interleave": "[0..6]^3"}


METHODS = [
    ("alpha_mart", None, None, {"eta": "3/4"}),
    ("alpha_mart", "shrink_trunc", None, {"eta": "3/4", "d": 10}),
    ("alpha_mart", "fixed_alternative_mean", None, {"eta": "5/8"}),
    ("betting_mart", None, "fixed_bet", {"lam": "1/2"}),
    ("betting_mart", None, "agrapa", {"lam": "1/2"}),
    ("kaplan_kolmogorov", None, None, {}),  # g is a contest attribute (0.1) in the Audit route, 0 in the direct route
    ("wald_sprt", None, None, {"eta": "3/4"}),
]


def cfg_of(m, N, u="1"):
    return {"test": m[0], "estim": m[1], "bet": m[2], "kw": m[3], "u": u, "t": "1/2", "N": N, "H": None, "k": 2, "ro": True}


def first_crossing(hist, alpha, N):
    for i, p in enumerate(hist):
        if p <= alpha:
            return i + 1
    return N


def judge_det(m, N, x, alpha):
    cfg = cfg_of(m, N)
    xs = [float(F(v)) for v in x]
    pop = (xs * math.ceil(N / len(xs)))[:N]
    with warnings.catch_warnings():
        warnings.simplefilter("ignore")
        try:
            got = s1.make(cfg).sample_size(x=list(xs), alpha=alpha, reps=None)
        except Exception as e:  # noqa
            return [(f"C16|sample_size|exception|{type(e).__name__}", f"sample_size raised {type(e).__name__}: {str(e)[:80]}")], None
        hist = s1.make(cfg).test(np.array(pop))[1]
    want = first_crossing(hist, alpha, N)
    if got != want or not isinstance(got, int):
        return [(f"C16|sample_size|deterministic|{s1.method_key(cfg)}", f"pilot {x} tiled to N={N} first crosses alpha={alpha} at {want} (history {[round(float(h), 4) for h in hist]}), estimate returned {got!r}")], got
    return [], got


class ScriptedRS:
    """stands in for numpy.random.RandomState: choice() returns the next scripted tail"""
    tails = []
    calls = 0
    seeds = []

    def __init__(self, seed=None):
        ScriptedRS.seeds.append(seed)

    def choice(self, a, size=None, replace=True, p=None):
        t = ScriptedRS.tails[ScriptedRS.calls % len(ScriptedRS.tails)]
        ScriptedRS.calls += 1
        arr = np.asarray(a, dtype=float)
        assert size == len(t), (size, len(t))
        return arr[list(t)]


@contextlib.contextmanager
def scripted(tails):
    orig = np.random.RandomState
    ScriptedRS.tails, ScriptedRS.calls, ScriptedRS.seeds = tails, 0, []
    np.random.RandomState = ScriptedRS
    try:
        yield
    finally:
        np.random.RandomState = orig


def judge_sim(m, N, x, alpha, tails, reps, quantile, seed):
    cfg = cfg_of(m, N)
    xs = [float(F(v)) for v in x]
    with warnings.catch_warnings():
        warnings.simplefilter("ignore")
        # the prefix's entries as they appear inside a longer sample (the last entry of a truncated sample may be
        # lower, C05): take them from the prefix followed by one continuation; they are the same for every tail
        hist = s1.make(cfg).test(np.array(xs + [xs[0]] * (N - len(xs))))[1][: len(xs)]
        k = next((i + 1 for i, p in enumerate(hist) if p <= alpha), None)
        try:
            if tails is None:
                got = s1.make(cfg).sample_size(x=list(xs), alpha=alpha, reps=reps, prefix=True, quantile=quantile, seed=seed)
            else:
                with scripted(tails):
                    got = s1.make(cfg).sample_size(x=list(xs), alpha=alpha, reps=reps, prefix=True, quantile=quantile, seed=seed)
                    if ScriptedRS.calls != reps:
                        return [("C16|simulation|rng-calls", f"{ScriptedRS.calls} draws requested from the generator for {reps} repetitions")], k
        except Exception as e:  # noqa
            return [(f"C16|simulation|exception|{type(e).__name__}", f"{type(e).__name__}: {str(e)[:80]}")], k
    out = []
    if k is not None and got != k:
        out.append(("C16|simulation|prefix-already-crossed", f"prefix {x} crosses alpha={alpha} at {k} but the simulated estimate is {got} (reps {reps}, quantile {quantile}, seed {seed})"))
    if not (1 <= got <= N):
        out.append(("C16|simulation|range", f"estimate {got} outside 1..{N}"))
    return out, k


class _Name(str):
    """a candidate name as a parser delivers it: equal to, but not the same object as, the name used elsewhere"""


def _copy_of(name):
    return _Name(name)


def comparison_contest(N, k_win, audit_type, m, risk, share=None):
    """N cards, k_win vote A, the rest vote B; margin = (2 k_win - N)/N (plurality; super-majority if a share is given)"""
    cvrs = [CVR(id=f"c{i}", votes={"con": {"A": True} if i < k_win else {"B": True}}, sample_num=i + 1) for i in range(N)]
    con = Contest.from_dict({"id": "con", "name": "con", "risk_limit": risk, "cards": N,
                             "choice_function": Contest.SOCIAL_CHOICE_FUNCTION.SUPERMAJORITY if share else Contest.SOCIAL_CHOICE_FUNCTION.PLURALITY, "share_to_win": share,
                             "n_winners": 1, "candidates": ["A", "B"], "winner": [_copy_of("A")], "audit_type": audit_type, "test": s1.TESTS[m[0]],
                             "estim": s1.ESTIMS[m[1]], "bet": s1.BETS[m[2]], "test_kwargs": {k: float(F(v)) if isinstance(v, str) else v for k, v in m[3].items()},
                             "g": 0.1, "use_style": True, "tally": {"A": k_win, "B": N - k_win}, "sample_size": None, "sample_threshold": None})
    cons = {"con": con}
    Assertion.make_all_assertions(cons)
    audit = Audit.from_dict({"quantile": 0.5, "error_rate_1": 0, "error_rate_2": 0, "reps": None, "sim_seed": 1,
                             "strata": {"s": {"max_cards": N, "use_style": True, "replacement": False}}})
    asn = next(iter(con.assertions.values()))
    return con, asn, audit, cvrs


def judge_comparison(m, N, k_win, r1, r2, alpha, audit_type, share=None):
    con, asn, audit, cvrs = comparison_contest(N, k_win, audit_type, m, alpha, share)
    with warnings.catch_warnings():
        warnings.simplefilter("ignore")
        asn.set_margin_from_cvrs(audit, cvrs)
        v = asn.margin
        if not (v > 0):
            return [], None
        ua = asn.assorter.upper_bound
        # an overstatement of half / of the whole assorter bound (make_overstatement: "overs times the assorter upper bound")
        u_t = 2 / (2 - v / ua)
        big = 1 / (2 - v / ua)
        small = 0.5 / (2 - v / ua)
        pop = [big] * N
        if r1:
            for i in range(0, N, math.floor(1 / r1)):
                pop[i] = small
        if r2:
            for i in range(0, N, math.floor(1 / r2)):
                pop[i] = 0.0
        try:
            got = asn.find_sample_size(data=None, rate_1=r1, rate_2=r2, reps=None)
        except Exception as e:  # noqa
            return [(f"C16|find_sample_size|{audit_type}|exception|{type(e).__name__}", f"{type(e).__name__}: {str(e)[:80]}")], None
        twin = NonnegMean(test=con.test, estim=con.estim, bet=con.bet, u=u_t, N=N, t=1 / 2, g=getattr(asn.test, "g", 0), **con.test_kwargs)  # padding as in the assertion's own test
        hist = twin.test(np.array(pop))[1]
    want = first_crossing(hist, alpha, N)
    out = []
    if got != want:
        out.append((f"C16|find_sample_size|{audit_type}", f"N={N}, margin {v}, rates ({r1},{r2}): documented population {[round(p, 3) for p in pop]} first crosses {alpha} at {want}, estimate {got}"))
    if asn.sample_size != got:
        out.append(("C16|find_sample_size|attribute", f"assertion.sample_size = {asn.sample_size}, returned {got}"))
    return out, got


def judge_oneaudit_audit(m, N, k_win, pooled, r1, r2, alpha):
    """Audit.find_sample_size for a ONEAudit contest before any card has been examined: the hypothetical population is
    the error-free overstatement-assorter values of all cards (pooled cards compared with their batch mean), with
    one-vote overstatements every floor(1/r1) positions from 0 and two-vote overstatements every floor(1/r2) positions
    from 0 (a position carrying both counts as the two-vote one); the estimate is the first crossing on it"""
    def fresh():
        con, asn, audit, cvrs = comparison_contest(N, k_win, Audit.AUDIT_TYPE.ONEAUDIT, m, alpha)
        for i in pooled:
            cvrs[i].tally_pool, cvrs[i].pool = "P", True
        audit.error_rate_1, audit.error_rate_2 = r1, r2
        asn.assorter.set_tally_pool_means(cvr_list=cvrs, tally_pools=None, use_style=True)
        asn.set_margin_from_cvrs(audit, cvrs)
        return con, asn, audit, cvrs

    with warnings.catch_warnings():
        warnings.simplefilter("ignore")
        try:
            con, asn, audit, cvrs = fresh()
            if not (asn.margin > 0):
                return [], None
            base, u_t = asn.mvrs_to_data(cvrs, cvrs, use_all=True)
            v = asn.margin
            pop = [float(b) for b in base]
            if r1:
                for i in range(0, N, math.floor(1 / r1)):
                    pop[i] = 0.5 / (2 - v)
            if r2:
                for i in range(0, N, math.floor(1 / r2)):
                    pop[i] = 0.0
            con2, asn2, audit2, cvrs2 = fresh()
            audit2.find_sample_size(contests={"con": con2}, cvrs=cvrs2)
            got = con2.sample_size
        except Exception as e:  # noqa
            return [(f"C16|oneaudit-audit|exception|{type(e).__name__}", f"{type(e).__name__}: {str(e)[:80]}")], None
        twin = NonnegMean(test=con.test, estim=con.estim, bet=con.bet, u=asn.test.u, N=N, t=1 / 2, g=con.g, **con.test_kwargs)
        hist = twin.test(np.array(pop))[1]
    want = first_crossing(hist, alpha, N)
    if got != want:
        return [("C16|oneaudit-audit|Audit.find_sample_size", f"ONEAudit, N={N}, {k_win} votes for the winner, cards {list(pooled)} pooled, rates ({r1},{r2}): documented population "
                 f"{[round(p_, 3) for p_ in pop]} first crosses {alpha} at {want}, contest.sample_size {got}")], got
    return [], got


def judge_polling(m, N, n_win, n_lose, alpha, share=None):
    con, asn, audit, _ = comparison_contest(N, n_win, Audit.AUDIT_TYPE.POLLING, m, alpha, share)
    con.tally = {"A": n_win, "B": n_lose}
    ub = 1 if not share else 1 / (2 * share)
    with warnings.catch_warnings():
        warnings.simplefilter("ignore")
        asn.find_margin_from_tally()
        if not (asn.margin > 0):
            return [], None
        asn.test.u = ub
        try:
            got = asn.find_sample_size(data=None, reps=None)
        except Exception as e:  # noqa
            return [(f"C16|find_sample_size|POLLING|exception|{type(e).__name__}", f"polling estimate from tallies raised {type(e).__name__}: {str(e)[:80]}")], None
        pop = Assertion.interleave_values(n_lose, N - n_win - n_lose, n_win, big=ub)
        if sorted(pop) != sorted([0.0] * n_lose + [0.5] * (N - n_win - n_lose) + [float(ub)] * n_win):
            return [], None  # interleave defect: reported by clause (d)
        twin = NonnegMean(test=con.test, estim=con.estim, bet=con.bet, u=ub, N=N, t=1 / 2, g=getattr(asn.test, "g", 0), **con.test_kwargs)
        hist = twin.test(np.array(pop))[1]
    want = first_crossing(hist, alpha, N)
    if got != want:
        return [("C16|find_sample_size|POLLING" + ("|supermajority" if share else ""), f"tally A={n_win}, B={n_lose}, N={N}{', share ' + str(share) if share else ''}: interleaved population first crosses {alpha} at {want}, estimate {got}")], got
    return [], got


def judge_first_round_no_style(m, N, k_win, alpha):
    """the documented first call, audit.find_sample_size(contests, cvrs=cvrs), in an audit WITHOUT style information (the
    normal setting for polling, legal for comparison): the contest estimate is that of its assertion"""
    out = []
    with warnings.catch_warnings():
        warnings.simplefilter("ignore")
        try:
            con, asn, audit, cvrs = comparison_contest(N, k_win, Audit.AUDIT_TYPE.CARD_COMPARISON, m, alpha)
            stratum = next(iter(audit.strata.values()))
            stratum.use_style = False
            con.use_style = False
            asn.set_margin_from_cvrs(audit, cvrs)
            want = asn.find_sample_size(data=None, rate_1=0, rate_2=0, reps=None)
            con2, asn2, audit2, cvrs2 = comparison_contest(N, k_win, Audit.AUDIT_TYPE.CARD_COMPARISON, m, alpha)
            next(iter(audit2.strata.values())).use_style = False
            con2.use_style = False
            asn2.set_margin_from_cvrs(audit2, cvrs2)
            total = audit2.find_sample_size(contests={"con": con2}, cvrs=cvrs2)
        except Exception as e:  # noqa
            return [(f"C16|first-round-without-style|exception|{type(e).__name__}", f"Audit.find_sample_size(contests, cvrs) with use_style=False raised {type(e).__name__}: {str(e)[:80]}")]
    if con2.sample_size != want or total != want:
        out.append(("C16|first-round-without-style|estimate", f"assertion estimate {want}, contest.sample_size {con2.sample_size}, returned total {total}"))
    return out


def judge_contest_level(m, N, tallies, alpha, r1):
    """plurality contest A beats B and C: contest estimate = max over its two assertions; audit-level likewise"""
    a_, b_, c_ = tallies
    cvrs = [CVR(id=f"c{i}", votes={"con": {"A": True} if i < a_ else ({"B": True} if i < a_ + b_ else ({"C": True} if i < a_ + b_ + c_ else {}))}, sample_num=i + 1)
            for i in range(N)]

    def fresh():
        con = Contest.from_dict({"id": "con", "name": "con", "risk_limit": alpha, "cards": N, "choice_function": Contest.SOCIAL_CHOICE_FUNCTION.PLURALITY,
                                 "n_winners": 1, "candidates": ["A", "B", "C"], "winner": ["A"], "audit_type": Audit.AUDIT_TYPE.CARD_COMPARISON,
                                 "test": s1.TESTS[m[0]], "estim": s1.ESTIMS[m[1]], "bet": s1.BETS[m[2]],
                                 "test_kwargs": {k: float(F(v)) if isinstance(v, str) else v for k, v in m[3].items()}, "g": 0.1, "use_style": True,
                                 "tally": None, "sample_size": None, "sample_threshold": None})
        cons = {"con": con}
        Assertion.make_all_assertions(cons)
        audit = Audit.from_dict({"quantile": 0.5, "error_rate_1": r1, "error_rate_2": 0, "reps": None, "sim_seed": 1,
                                 "strata": {"s": {"max_cards": N, "use_style": True, "replacement": False}}})
        Assertion.set_all_margins_from_cvrs(audit, cons, cvrs)
        return con, cons, audit

    out = []
    with warnings.catch_warnings():
        warnings.simplefilter("ignore")
        try:
            con, cons, audit = fresh()
            each = {name: a.find_sample_size(data=None, rate_1=r1, rate_2=0, reps=None) for name, a in con.assertions.items()}
            con2, cons2, audit2 = fresh()
            got = con2.find_sample_size(audit2)
            attr2 = con2.sample_size
            # the same Contest asked again under assumptions that need fewer cards: the estimate is the maximum over
            # its assertions for *this* call, not a running maximum over calls
            audit2.error_rate_1 = 0
            each0 = {name: a.find_sample_size(data=None, rate_1=0, rate_2=0, reps=None) for name, a in fresh()[0].assertions.items()}
            got_again = con2.find_sample_size(audit2)
            con3, cons3, audit3 = fresh()
            got_a = audit3.find_sample_size(contests=cons3, cvrs=cvrs)
            size3 = con3.sample_size
            con4, cons4, audit4 = fresh()
            first = next(iter(con4.assertions))
            con4.assertions[first].proved = True
            audit4.find_sample_size(contests=cons4, cvrs=cvrs)
            size4 = con4.sample_size
        except Exception as e:  # noqa
            return [(f"C16|contest-level|exception|{type(e).__name__}", f"{type(e).__name__}: {str(e)[:80]}")], None
    want = max(each.values())
    if got != want or attr2 != want:
        out.append(("C16|contest-level|Contest.find_sample_size", f"assertion estimates {each}, contest estimate {got} (attribute {attr2})"))
    if got_again != max(each0.values()):
        out.append(("C16|contest-level|second-call-on-same-contest", f"second Contest.find_sample_size with error rate 0: assertion estimates {each0}, contest estimate {got_again}"))
    if size3 != want:
        out.append(("C16|contest-level|Audit.find_sample_size", f"assertion estimates {each}, contest.sample_size after Audit.find_sample_size = {size3}"))
    want4 = max(v for k, v in each.items() if k != first)
    if size4 != want4:
        out.append(("C16|contest-level|confirmed-assertion-not-skipped", f"with {first} already confirmed the contest needs {want4}, got {size4}"))
    return out, want


def judge_audit_with_data(m, N, tallies, L, alpha, margins_from="cvrs"):
    """Audit.find_sample_size given a sample of manual records: per assertion the deterministic estimate on that assertion's
    own data (tiled), per contest the maximum over its unconfirmed assertions"""
    a_, b_, c_ = tallies
    cvrs = [CVR(id=f"c{i}", votes={"con": {"A": True} if i < a_ else ({"B": True} if i < a_ + b_ else ({"C": True} if i < a_ + b_ + c_ else {}))}, sample_num=i + 1)
            for i in range(N)]
    con = Contest.from_dict({"id": "con", "name": "con", "risk_limit": alpha, "cards": N, "choice_function": Contest.SOCIAL_CHOICE_FUNCTION.PLURALITY,
                             "n_winners": 1, "candidates": ["A", "B", "C"], "winner": ["A"], "audit_type": Audit.AUDIT_TYPE.CARD_COMPARISON,
                             "test": s1.TESTS[m[0]], "estim": s1.ESTIMS[m[1]], "bet": s1.BETS[m[2]],
                             "test_kwargs": {k: float(F(v)) if isinstance(v, str) else v for k, v in m[3].items()}, "g": 0.1, "use_style": True,
                             "tally": None, "sample_size": None, "sample_threshold": 10 ** 9})
    cons = {"con": con}
    with warnings.catch_warnings():
        warnings.simplefilter("ignore")
        try:
            Assertion.make_all_assertions(cons)
            audit = Audit.from_dict({"quantile": 0.5, "error_rate_1": 0, "error_rate_2": 0, "reps": None, "sim_seed": 1,
                                     "strata": {"s": {"max_cards": N, "use_style": True, "replacement": False}}})
            if margins_from == "tally":  # margins from the reported tallies: this route does not touch the tests' bound
                Contest.tally(cons, cvrs, enforce_rules=False)
                con.find_margins_from_tally()
            else:
                Assertion.set_all_margins_from_cvrs(audit, cons, cvrs)
            idx = list(range(0, N, max(1, N // L)))[:L]  # a spread-out sample of L cards
            cvr_sample = [cvrs[i] for i in idx]
            mvr_sample = [CVR(id=c.id, votes={k: dict(v) for k, v in c.votes.items()}) for c in cvr_sample]
            mvr_sample[-1] = CVR(id=cvr_sample[-1].id, votes={"con": {"B": True}})  # one card read differently by hand
            if margins_from == "tally":  # and one two-vote understatement (the datum equals the comparison bound)
                lo = next((k_ for k_, c_ in enumerate(cvr_sample[:-1]) if c_.votes["con"].get("B")), None)
                if lo is not None:
                    mvr_sample[lo] = CVR(id=cvr_sample[lo].id, votes={"con": {"A": True}})
            for c in cvr_sample:
                c.sampled = True
            want = {}
            for name, asn in con.assertions.items():
                d, u = asn.mvrs_to_data(mvr_sample, cvr_sample)
                pop = (list(d) * math.ceil(N / len(d)))[:N]
                twin = NonnegMean(test=con.test, estim=con.estim, bet=con.bet, u=u, N=N, t=1 / 2, g=con.g, **con.test_kwargs)
                want[name] = first_crossing(twin.test(np.array(pop))[1], alpha, N)
            audit.find_sample_size(contests=cons, cvrs=cvrs, mvr_sample=mvr_sample, cvr_sample=cvr_sample)
            got = con.sample_size
        except Exception as e:  # noqa
            return [(f"C16|audit-with-data|exception|{type(e).__name__}", f"{type(e).__name__}: {str(e)[:80]}")], None
    if got != max(want.values()):
        return [("C16|audit-with-data|contest-estimate" + ("|margins-from-tally" if margins_from == "tally" else ""), f"per-assertion first crossings on their own tiled data {want}, contest.sample_size {got} (N={N}, tallies {tallies}, sample of {L})")], got
    return [], got


def judge_audit_prefix_sim(m, N, k_win, L, alpha):
    """Audit.find_sample_size with a sample of manual records and simulations switched on (reps set): when the records in
    hand already cross the risk limit at position k < len(sample), the estimate is k for every seed, repetition count and
    quantile (every replication starts with those records)"""
    out = []
    with warnings.catch_warnings():
        warnings.simplefilter("ignore")
        try:
            con, asn, audit, cvrs = comparison_contest(N, k_win, Audit.AUDIT_TYPE.CARD_COMPARISON, m, alpha)
            asn.set_margin_from_cvrs(audit, cvrs)
            cvr_sample = cvrs[:L]
            mvr_sample = [CVR(id=c.id, votes={k_: dict(v) for k_, v in c.votes.items()}) for c in cvr_sample]
            for c in cvr_sample:
                c.sampled = True
            con.sample_threshold = 10 ** 9
            d, u = asn.mvrs_to_data(mvr_sample, cvr_sample)
            pop = (list(d) * math.ceil(N / len(d)))[:N]
            twin = NonnegMean(test=con.test, estim=con.estim, bet=con.bet, u=u, N=N, t=1 / 2, g=con.g, **con.test_kwargs)
            k = first_crossing(twin.test(np.array(pop))[1], alpha, N)
            if not (k < len(d)):
                return [], None
            for reps, q, seed in ((1, 0.5, 1), (3, 0.1, 7), (3, 0.9, 1234567890), (7, 0.5, 0)):
                con2, asn2, audit2, cvrs2 = comparison_contest(N, k_win, Audit.AUDIT_TYPE.CARD_COMPARISON, m, alpha)
                asn2.set_margin_from_cvrs(audit2, cvrs2)
                for c in cvrs2[:L]:
                    c.sampled = True
                con2.sample_threshold = 10 ** 9
                audit2.reps, audit2.quantile, audit2.sim_seed = reps, q, seed
                audit2.find_sample_size(contests={"con": con2}, cvrs=cvrs2, mvr_sample=[CVR(id=c.id, votes={k_: dict(v) for k_, v in c.votes.items()}) for c in cvrs2[:L]],
                                        cvr_sample=cvrs2[:L])
                if con2.sample_size != k:
                    out.append(("C16|audit-with-data|prefix-crossing", f"N={N}, {L} error-free records cross alpha={alpha} at position {k}; with reps={reps}, quantile={q}, seed={seed} "
                                f"Audit.find_sample_size gives {con2.sample_size}"))
                    break
        except Exception as e:  # noqa
            return [(f"C16|audit-with-data|exception|{type(e).__name__}", f"{type(e).__name__}: {str(e)[:80]}")], None
    return out, k


def judge_contest_wide(m, ncand, alpha, hit):
    """a plurality contest with ncand candidates (ncand-1 assertions): Contest.find_sample_size on a sample of manual records
    = the largest per-assertion estimate, also when the costly assertion is one with a comfortable reported margin"""
    names = ["A"] + [f"Z{i}" for i in range(1, ncand)]
    tall = [8 * ncand] + [4 * max(0, ncand - 3 - i) for i in range(1, ncand)]  # A first, then decreasing; the last candidates get 0
    N = sum(tall) + 4
    votes = []
    for nm, k in zip(names, tall):
        votes += [{nm: True}] * k
    votes += [{}] * 4
    cvrs = [CVR(id=f"c{i}", votes={"con": dict(v)}, sample_num=i + 1) for i, v in enumerate(votes)]
    con = Contest.from_dict({"id": "con", "name": "con", "risk_limit": alpha, "cards": N, "choice_function": Contest.SOCIAL_CHOICE_FUNCTION.PLURALITY,
                             "n_winners": 1, "candidates": names, "winner": ["A"], "audit_type": Audit.AUDIT_TYPE.CARD_COMPARISON,
                             "test": s1.TESTS[m[0]], "estim": s1.ESTIMS[m[1]], "bet": s1.BETS[m[2]],
                             "test_kwargs": {k: float(F(v)) if isinstance(v, str) else v for k, v in m[3].items()}, "g": 0.1, "use_style": True,
                             "tally": None, "sample_size": None, "sample_threshold": 10 ** 9})
    cons = {"con": con}
    with warnings.catch_warnings():
        warnings.simplefilter("ignore")
        try:
            Assertion.make_all_assertions(cons)
            audit = Audit.from_dict({"quantile": 0.5, "error_rate_1": 0, "error_rate_2": 0, "reps": None, "sim_seed": 1,
                                     "strata": {"s": {"max_cards": N, "use_style": True, "replacement": False}}})
            Assertion.set_all_margins_from_cvrs(audit, cons, cvrs)
            cvr_sample = cvrs[:8]  # eight cards reported for A ...
            mvr_sample = [CVR(id=c.id, votes={"con": dict(c.votes["con"])}) for c in cvr_sample]
            mvr_sample[1] = CVR(id=cvr_sample[1].id, votes={"con": {names[hit]: True}})  # ... one of which was really for candidate `hit`
            want = {}
            for name, asn in con.assertions.items():
                d, u = asn.mvrs_to_data(mvr_sample, cvr_sample)
                pop = (list(d) * math.ceil(N / len(d)))[:N]
                twin = NonnegMean(test=con.test, estim=con.estim, bet=con.bet, u=u, N=N, t=1 / 2, g=con.g, **con.test_kwargs)
                want[name] = first_crossing(twin.test(np.array(pop))[1], alpha, N)
            got = con.find_sample_size(audit, mvr_sample=mvr_sample, cvr_sample=cvr_sample)
        except Exception as e:  # noqa
            return [(f"C16|contest-wide|exception|{type(e).__name__}", f"{type(e).__name__}: {str(e)[:80]}")], None
    if got != max(want.values()):
        worst = max(want, key=want.get)
        return [("C16|contest-wide|Contest.find_sample_size", f"{ncand} candidates, manual record for {names[hit]}: largest per-assertion estimate {max(want.values())} ({worst}), contest estimate {got}")], got
    return [], got


def judge_raire_estimator(N, tw, tl, polling, alpha):
    to = N - tw - tl
    mean = (tw + 0.5 * to) / N
    if not mean > 0.5:
        return [], None
    args = argparse.Namespace(erate1=0.25, erate2=0, rlimit=alpha, reps=None, seed=1)
    with warnings.catch_warnings():
        warnings.simplefilter("ignore")
        try:
            got = SE.sample_size(mean, tw, tl, to, args, N, polling=polling)
        except Exception as e:  # noqa
            return [(f"C16|raire-estimator|exception|{type(e).__name__}", f"{type(e).__name__}: {str(e)[:80]}")], None
        margin = 2 * mean - 1
        u = 2 / (2 - margin)
        if polling:
            pop = list(Assertion.interleave_values(tl, to, tw, big=1))
            twin = NonnegMean(test=NonnegMean.alpha_mart, estim=NonnegMean.shrink_trunc, N=N, u=u, eta=mean)
        else:
            big, small = 1 / (2 - margin), 0.5 / (2 - margin)
            pop = [big] * N
            for i in range(0, N, 4):
                pop[i] = small
            twin = NonnegMean(test=NonnegMean.alpha_mart, estim=NonnegMean.optimal_comparison, N=N, u=u, eta=mean)
        hist = twin.test(np.array(pop))[1]
    want = first_crossing(hist, alpha, N)
    if got != want:
        return [("C16|raire-estimator", f"N={N}, tallies ({tw},{tl},{to}), polling={polling}: first crossing {want}, estimate {got}")], got
    return [], got


def judge_interleave(a, b, c, custom):
    kw = {"small": 0.1, "med": 1, "big": 2} if custom else {}
    try:
        x = Assertion.interleave_values(a, b, c, **kw)
    except Exception as e:  # noqa
        return [(f"C16|interleave|exception|{type(e).__name__}", f"interleave_values({a},{b},{c}) raised {type(e).__name__}: {str(e)[:60]}")]
    vals = (0.1, 1, 2) if custom else (0, 0.5, 1)
    want = sorted([vals[0]] * a + [vals[1]] * b + [vals[2]] * c)
    if sorted(float(v) for v in x) != [float(v) for v in want]:
        return [("C16|interleave|counts", f"interleave_values({a},{b},{c}) returned {list(x)}: not {a} small, {b} medium and {c} big values")]
    return []


# ----------------------------------------------------------------------------------------------
def run_shard(sh, rec):
    kind = sh[0]
    if kind == "det":
        _, mi, N, ks, L = sh
        m = METHODS[mi]
        grids = [[str(F(i, k)) for i in range(k + 1)] for k in ks]
        if m[0] == "kaplan_kolmogorov":  # the Kaplan tests need no upper bound: pilot values above the test's u attribute are legitimate
            grids += [["0", "1", "2"], ["1/2", "3/2", "3"]]
        for grid in grids:
            for n in range(1, L + 1):
                for x in itertools.product(grid, repeat=n):
                    rec.state()
                    for alpha in ALPHAS:
                        v, got = judge_det(m, N, list(x), alpha)
                        rec.trans()
                        rec.evals(2)
                        rec.trace()
                        rec.observe(("det", mi, N, x, alpha, got))
                        if got is not None:
                            if 1 < got < N:
                                rec.vac("estimates_strictly_inside")
                                rec.outcome(("det", mi, N, x, alpha, got))
                            elif got == N:
                                rec.vac("estimates_equal_N")
                        for key, what in v:
                            rec.violate(key, what, {"kind": "det", "m": mi, "N": N, "x": list(x), "alpha": alpha})
                        if rec.want_sample(("det", mi, N, x, alpha)):
                            rec.sample({"method": METHODS[mi][:3], "N": N, "pilot": list(x), "alpha": alpha, "estimate": got})
    elif kind == "detbig":
        # populations of thousands: pilots of mostly 1/2 with an occasional 1 (or a 0 now and then) cross late or never
        _, mi = sh
        m = METHODS[mi]
        for N in (1500, 5000):
            for x in (["1/2"] * 9 + ["1"], ["1/2"] * 39 + ["1"], ["1/2"] * 199 + ["1"], ["1/2"] * 30 + ["1", "1", "0"], ["1/2"] * 999 + ["1"] * 9):
                rec.state()
                for alpha in (0.05, 0.001):
                    v, got = judge_det(m, N, list(x), alpha)
                    rec.trans()
                    rec.evals(2)
                    rec.vac("estimates_for_populations_of_thousands")
                    if got is not None and 1024 < got < N:
                        rec.vac("late_crossings_beyond_1024")
                    rec.observe(("detbig", mi, N, len(x), alpha, got))
                    for key, what in v:
                        rec.violate(key, what[:160] + f" ... [pilot of {len(x)} values, N={N}] estimate {got}", {"kind": "det", "m": mi, "N": N, "x": list(x), "alpha": alpha})
    elif kind == "sim":
        _, mi, N, maxtail = sh
        m = METHODS[mi]
        grid = ["0", "1/2", "1"]
        for n in range(1, N):
            if N - n > maxtail:
                continue
            for x in itertools.product(grid, repeat=n):
                if len(set(x)) < 2 and n > 1:
                    continue
                rec.state()
                tails = list(itertools.product(range(n), repeat=N - n))
                for alpha in (0.2, 0.5):
                    for (reps, q, seed) in ((1, 0.5, 1), (3, 0.1, 7), (3, 0.9, 1234567890)):
                        windows = [[t] for t in tails] if reps == 1 else [[tails[(i + j) % len(tails)] for j in range(3)] for i in range(len(tails))]
                        for w in windows:
                            v, k = judge_sim(m, N, list(x), alpha, w, reps, q, seed)
                            rec.trans()
                            rec.evals(2)
                            rec.vac("scripted_rng_runs")
                            if k is not None:
                                rec.vac("prefix_crossing_cases")
                            for key, what in v:
                                rec.violate(key, what, {"kind": "sim", "m": mi, "N": N, "x": list(x), "alpha": alpha, "tails": [list(t) for t in w], "reps": reps, "q": q, "seed": seed})
                    for seed in (0, 1, 1234567890):
                        v, k = judge_sim(m, N, list(x), alpha, None, 5, 0.5, seed)
                        rec.trans()
                        rec.evals(2)
                        rec.vac("real_rng_runs")
                        for key, what in v:
                            rec.violate(key, what, {"kind": "sim", "m": mi, "N": N, "x": list(x), "alpha": alpha, "tails": None, "reps": 5, "q": 0.5, "seed": seed})
    elif kind == "cmp":
        _, mi, N = sh
        m = METHODS[mi]
        for k_win in range(N // 2 + 1, N + 1):
            rec.state()
            for r1, r2 in itertools.product((0, 0.25, 0.28, 0.3, 0.5, 0.6), repeat=2):
                for alpha in ALPHAS:
                    for at, share in ((Audit.AUDIT_TYPE.CARD_COMPARISON, None), (Audit.AUDIT_TYPE.ONEAUDIT, None), (Audit.AUDIT_TYPE.CARD_COMPARISON, 2 / 3), (Audit.AUDIT_TYPE.CARD_COMPARISON, 1 / 3)):
                        v, got = judge_comparison(m, N, k_win, r1, r2, alpha, at, share)
                        if share:
                            rec.vac("supermajority_comparison_estimates")
                            v = [(k_ + "|supermajority", w_ + f" [share {share}]") for k_, w_ in v]
                        rec.trans()
                        rec.evals(2)
                        rec.observe(("cmp", mi, N, k_win, r1, r2, alpha, at, share, got))
                        if got is not None and 1 < got < N:
                            rec.vac("estimates_strictly_inside")
                            rec.outcome(("cmp", mi, N, k_win, r1, r2, alpha, at))
                        for key, what in v:
                            rec.violate(key, what, {"kind": "cmp", "m": mi, "N": N, "k_win": k_win, "r1": r1, "r2": r2, "alpha": alpha, "at": at, "share": share})
    elif kind == "oa":
        _, mi, N = sh
        m = METHODS[mi]
        for k_win in range(N // 2 + 1, N + 1):
            rec.state()
            for pooled in ((), (0, 1), (N - 3, N - 2, N - 1), tuple(range(0, N, 2))):
                for r1, r2 in itertools.product((0, 0.25, 0.3, 0.5), repeat=2):
                    for alpha in (0.05, 0.5):
                        v, got = judge_oneaudit_audit(m, N, k_win, pooled, r1, r2, alpha)
                        rec.trans()
                        rec.evals(2)
                        rec.vac("oneaudit_audit_level_cases")
                        rec.observe(("oa", mi, N, k_win, pooled, r1, r2, alpha, got))
                        if got is not None and 1 < got < N:
                            rec.vac("estimates_strictly_inside")
                            rec.outcome(("oa", mi, N, k_win, pooled, r1, r2, alpha))
                        for key, what in v:
                            rec.violate(key, what, {"kind": "oa", "m": mi, "N": N, "k_win": k_win, "pooled": list(pooled), "r1": r1, "r2": r2, "alpha": alpha})
    elif kind == "poll":
        _, mi, N = sh
        m = METHODS[mi]
        for n_win in range(1, N + 1):
            for n_lose in range(0, min(n_win, N - n_win + 1)):
                if n_win + n_lose > N:
                    continue
                rec.state()
                for alpha in ALPHAS:
                    v, got = judge_polling(m, N, n_win, n_lose, alpha)
                    rec.trans()
                    rec.evals(2)
                    rec.vac("polling_tallies")
                    rec.observe(("poll", mi, N, n_win, n_lose, alpha, got))
                    if got is not None and 1 < got < N:
                        rec.vac("estimates_strictly_inside")
                        rec.outcome(("poll", mi, N, n_win, n_lose, alpha))
                    for key, what in v:
                        rec.violate(key, what, {"kind": "poll", "m": mi, "N": N, "n_win": n_win, "n_lose": n_lose, "alpha": alpha})
                    for share in (2 / 3, 1 / 3):
                        v, got = judge_polling(m, N, n_win, n_lose, alpha, share)
                        rec.trans()
                        rec.evals(2)
                        if got is not None:
                            rec.vac("supermajority_polling_tallies")
                        rec.observe(("poll", mi, N, n_win, n_lose, alpha, share, got))
                        for key, what in v:
                            rec.violate(key, what, {"kind": "poll", "m": mi, "N": N, "n_win": n_win, "n_lose": n_lose, "alpha": alpha, "share": share})
    elif kind == "contest":
        _, mi, N = sh
        m = METHODS[mi]
        for a_ in range(1, N + 1):
            for b_ in range(0, a_):
                for c_ in range(0, a_):
                    if a_ + b_ + c_ > N:
                        continue
                    rec.state()
                    for alpha in (0.05, 0.5):
                        for r1 in (0, 0.25):
                            v, got = judge_contest_level(m, N, (a_, b_, c_), alpha, r1)
                            rec.trans()
                            rec.evals(6)
                            rec.vac("contest_level_cases")
                            for key, what in v:
                                rec.violate(key, what, {"kind": "contest", "m": mi, "N": N, "tallies": [a_, b_, c_], "alpha": alpha, "r1": r1})
                        for L in (2, 3):
                            v, got = judge_audit_with_data(m, N, (a_, b_, c_), L, alpha)
                            rec.trans()
                            rec.evals(4)
                            rec.vac("audit_with_data_cases")
                            for key, what in v:
                                rec.violate(key, what, {"kind": "auditdata", "m": mi, "N": N, "tallies": [a_, b_, c_], "alpha": alpha, "L": L})
                            v, got = judge_audit_with_data(m, N, (a_, b_, c_), L + 2, alpha, "tally")
                            rec.trans()
                            rec.evals(4)
                            rec.vac("audit_with_data_margins_from_tally")
                            for key, what in v:
                                rec.violate(key, what, {"kind": "auditdata", "m": mi, "N": N, "tallies": [a_, b_, c_], "alpha": alpha, "L": L + 2, "margins_from": "tally"})
    elif kind == "nostyle":
        _, mi = sh
        for N in (8, 12):
            for k_win in range(N // 2 + 1, N + 1):
                for alpha in ALPHAS:
                    rec.state()
                    rec.trans()
                    rec.evals(2)
                    rec.vac("first_round_estimates_without_style")
                    for key, what in judge_first_round_no_style(METHODS[mi], N, k_win, alpha):
                        rec.violate(key, what, {"kind": "nostyle", "m": mi, "N": N, "k_win": k_win, "alpha": alpha})
    elif kind == "prefixsim":
        _, mi = sh
        m = METHODS[mi]
        for N in (12, 20, 30):
            for k_win in range(N // 2 + 1, N + 1):
                for L in range(2, min(N, 13)):
                    for alpha in (0.05, 0.2, 0.5):
                        rec.state()
                        v, k = judge_audit_prefix_sim(m, N, k_win, L, alpha)
                        rec.trans()
                        rec.evals(5)
                        if k is not None:
                            rec.vac("audit_level_prefix_crossing_cases")
                        for key, what in v:
                            rec.violate(key, what, {"kind": "prefixsim", "m": mi, "N": N, "k_win": k_win, "L": L, "alpha": alpha})
    elif kind == "wide":
        _, mi = sh
        for ncand in (4, 12, 14):
            for hit in range(1, ncand):
                rec.state()
                for alpha in (0.05, 0.5):
                    v, got = judge_contest_wide(METHODS[mi], ncand, alpha, hit)
                    rec.trans()
                    rec.evals(ncand + 1)
                    rec.vac("wide_contest_cases")
                    for key, what in v:
                        rec.violate(key, what, {"kind": "wide", "m": mi, "ncand": ncand, "alpha": alpha, "hit": hit})
    elif kind == "raire":
        for N in (6, 9, 12):
            for tw in range(1, N + 1):
                for tl in range(0, tw):
                    if tw + tl > N:
                        continue
                    rec.state()
                    for polling in (False, True):
                        for alpha in (0.05, 0.5):
                            v, got = judge_raire_estimator(N, tw, tl, polling, alpha)
                            rec.trans()
                            rec.evals(2)
                            rec.vac("raire_estimator_cases")
                            for key, what in v:
                                rec.violate(key, what, {"kind": "raire", "N": N, "tw": tw, "tl": tl, "polling": polling, "alpha": alpha})
    else:
        for a, b, c in itertools.product(range(7), repeat=3):
            if a + b + c < 1:
                continue
            rec.state()
            for custom in (False, True):
                v = judge_interleave(a, b, c, custom)
                rec.trans()
                rec.evals()
                rec.vac("interleave_cases")
                for key, what in v:
                    rec.violate(key, what, {"kind": "interleave", "a": a, "b": b, "c": c, "custom": custom})


def explore(tier, seed):
    q = tier == "quick"
    Ns = [5, 8, 12] if q else list(range(5, 13))
    sh = [("interleave",), ("raire",)]
    for mi in range(len(METHODS)):
        for N in Ns:
            sh.append(("det", mi, N, (2,) if q else (2, 3), 3 if q else 4))
            sh.append(("cmp", mi, N))
            sh.append(("poll", mi, N))
            if N >= 8:
                sh.append(("oa", mi, N))
        for N in ([4, 5] if q else [4, 5, 6]):
            sh.append(("sim", mi, N, 4 if q else 5))
        for N in ([6] if q else [6, 8]):
            sh.append(("contest", mi, N))
        sh.append(("wide", mi))
        sh.append(("detbig", mi))
        sh.append(("prefixsim", mi))
        sh.append(("nostyle", mi))
    return core.pmap(run_shard, sh, seed, progress="C16")


def run_case(case):
    k = case["kind"]
    if k == "det":
        return judge_det(METHODS[case["m"]], case["N"], case["x"], case["alpha"])[0]
    if k == "sim":
        tails = None if case["tails"] is None else [tuple(t) for t in case["tails"]]
        return judge_sim(METHODS[case["m"]], case["N"], case["x"], case["alpha"], tails, case["reps"], case["q"], case["seed"])[0]
    if k == "cmp":
        v = judge_comparison(METHODS[case["m"]], case["N"], case["k_win"], case["r1"], case["r2"], case["alpha"], case["at"], case.get("share"))[0]
        return [(k_ + "|supermajority", w_) for k_, w_ in v] if case.get("share") else v
    if k == "oa":
        return judge_oneaudit_audit(METHODS[case["m"]], case["N"], case["k_win"], tuple(case["pooled"]), case["r1"], case["r2"], case["alpha"])[0]
    if k == "poll":
        return judge_polling(METHODS[case["m"]], case["N"], case["n_win"], case["n_lose"], case["alpha"], case.get("share"))[0]
    if k == "contest":
        return judge_contest_level(METHODS[case["m"]], case["N"], tuple(case["tallies"]), case["alpha"], case["r1"])[0]
    if k == "nostyle":
        return judge_first_round_no_style(METHODS[case["m"]], case["N"], case["k_win"], case["alpha"])
    if k == "prefixsim":
        return judge_audit_prefix_sim(METHODS[case["m"]], case["N"], case["k_win"], case["L"], case["alpha"])[0]
    if k == "auditdata":
        return judge_audit_with_data(METHODS[case["m"]], case["N"], tuple(case["tallies"]), case["L"], case["alpha"], case.get("margins_from", "cvrs"))[0]
    if k == "wide":
        return judge_contest_wide(METHODS[case["m"]], case["ncand"], case["alpha"], case["hit"])[0]
    if k == "raire":
        return judge_raire_estimator(case["N"], case["tw"], case["tl"], case["polling"], case["alpha"])[0]
    return judge_interleave(case["a"], case["b"], case["c"], case["custom"])
