"""C17 -- each sample number maps to exactly one card; manifests account for every card (S6 manifest lattice)."""
import itertools
import warnings

import numpy as np
import pandas as pd

from shangrla.core.Audit import CVR
from shangrla.formats.Dominion import Dominion
from shangrla.formats.Hart import Hart

from vmc import core
from . import c08

ID = "C17"
RULE = (
    "manifests grown batch by batch (1..B batches, each of size 0..S, empty batches included) x card bound = total + "
    "{0,1,2} x number of CVRs in {0,total} (and manifests whose DataFrame index is reversed or shifted, and raw DataFrame objects that were already prepared once for another bound), through each vendor's own prep_manifest; then every single valid sample "
    "number (whole range, hence injectivity), every ordered pair and (thorough, small manifests) every ordered triple "
    "through sample_from_manifest: number -> (batch row, position) must be the reference bijection (1-based Dominion, "
    "0-based Hart) with the position inside the batch's size, selection_order = position in the sample, phantom manual "
    "record iff the card is in the appended phantom batch; refusals for bound < total and CVRs > total; every single number again on a manifest derived from the prepared one (real batches in reverse order, counts re-accumulated); "
    "sample_from_cvrs on vendor-format lists with phantoms for every ordered sample of <= 3; manifests with counts in the hundreds of thousands (refusal exact to one card, lookups at every batch boundary) and one sample of 300/2500 draws.  Non-trivial = manifest with "
    "an empty batch or a phantom batch; distinct = distinct (vendor, manifest, bound)"
)
ASSUMPTIONS = ["(tabulator, batch) pairs are unique in a manifest", "sample numbers are valid (inside the range the prepared manifest accounts for)"]
REQUIRE_VAC = ["manifests_with_empty_batch", "manifests_with_phantom_batch", "phantom_cards_looked_up", "refusals_checked", "pairs_looked_up", "lookups_on_derived_manifest", "raw_manifest_object_prepared_twice"]
PLAN = {"quick": (3, 3), "thorough": (4, 4)}


def bounds(tier):
    B, S = PLAN[tier]
    return {"batches": f"1..{B}", "batch sizes": f"0..{S}", "card bound": "total + {0,1,2}", "samples": "all singles, all ordered pairs" + (", ordered triples when total <= 6" if tier == "thorough" else ""),
            "vendors": ["Dominion (1-based)", "Hart (0-based)"]}


def make_manifest(vendor, sizes, index_kind="range"):
    m = _make_manifest(vendor, sizes)
    if index_kind == "reversed":  # a manifest that was sorted / filtered / concatenated keeps foreign index labels
        m.index = list(range(len(sizes) - 1, -1, -1))
    elif index_kind == "shifted":
        m.index = [10 * (i + 1) for i in range(len(sizes))]
    return m


def _make_manifest(vendor, sizes):
    if vendor == "dominion":
        return pd.DataFrame({"Tray #": [i + 1 for i in range(len(sizes))], "Tabulator Number": [10 + i for i in range(len(sizes))],
                             "Batch Number": [i + 1 for i in range(len(sizes))], "Total Ballots": list(sizes),
                             "VBMCart.Cart number": [100 + i for i in range(len(sizes))]})
    return pd.DataFrame({"Container": [f"box{i}" for i in range(len(sizes))], "Tabulator": [f"t{i}" for i in range(len(sizes))],
                         "Batch Name": [f"b{i}" for i in range(len(sizes))], "Number of Ballots": list(sizes)})


def ref_cards(vendor, sizes, extra, row_order=None):
    """card number -> (row, tab, batch, position, is_phantom) for every card the prepared manifest accounts for
    (row_order: the real batches appear in this order)"""
    rows = []
    for i in (row_order if row_order is not None else range(len(sizes))):
        sz = sizes[i]
        tab, batch = (str(10 + i), str(i + 1)) if vendor == "dominion" else (f"t{i}", f"b{i}")
        rows.append((tab, batch, sz, False))
    if extra:
        rows.append(("phantom", "1", extra, True))
    out = {}
    num = 1 if vendor == "dominion" else 0
    for r, (tab, batch, sz, ph) in enumerate(rows):
        for pos in range(sz):
            out[num] = (r, tab, batch, pos + 1 if vendor == "dominion" else pos, ph)
            num += 1
    return out


def prep(vendor, sizes, bound, n_cvrs, index_kind="range", used_before=False):
    m = make_manifest(vendor, sizes, index_kind)
    if used_before == "withdrawn":
        # the manifest is what is left of an already prepared one after its first batch (2 cards) was withdrawn: it still
        # carries that manifest's cumulative-count column (Dominion only: its prepared manifests keep numeric counts)
        big = make_manifest(vendor, (2,) + tuple(sizes), index_kind)
        with warnings.catch_warnings():
            warnings.simplefilter("ignore")
            prepared, _, _ = Dominion.prep_manifest(big, 2 + sum(sizes), 0)
        m = prepared.iloc[1:].reset_index(drop=True)
        used_before = False
    with warnings.catch_warnings():
        warnings.simplefilter("ignore")
        if used_before == "exact":  # the same raw DataFrame object was prepared before, with the bound equal to its size
            (Dominion if vendor == "dominion" else Hart).prep_manifest(m, sum(sizes), 0)
        elif used_before:  # ... or for a larger bound
            (Dominion if vendor == "dominion" else Hart).prep_manifest(m, bound + 2, 0)
        if vendor == "dominion":
            return Dominion.prep_manifest(m, bound, n_cvrs)
        return Hart.prep_manifest(m, bound, n_cvrs)


def judge_prep(vendor, sizes, extra, index_kind="range", used_before=False):
    total = sum(sizes)
    out = []
    res = None
    for n_cvrs in sorted({0, total}):
        try:
            man, mc, ph = prep(vendor, sizes, total + extra, n_cvrs, index_kind, used_before)
        except Exception as e:  # noqa
            return [(f"C17|{vendor}|prep_manifest|exception|{type(e).__name__}", f"prep_manifest raised {type(e).__name__}: {str(e)[:80]} (sizes {list(sizes)}, bound {total + extra}, cvrs {n_cvrs})")], None
        if int(mc) != total or int(ph) != extra:
            out.append((f"C17|{vendor}|prep_manifest|counts", f"returned manifest_cards={mc}, phantoms={ph}; expected {total}, {extra}"))
        col = "Total Ballots" if vendor == "dominion" else "Number of Ballots"
        got_sizes = [int(x) for x in man[col]]
        want_sizes = list(sizes) + ([extra] if extra else [])
        if got_sizes != want_sizes:
            out.append((f"C17|{vendor}|prep_manifest|batches", f"prepared manifest has batch sizes {got_sizes}, expected {want_sizes}"))
        elif [int(x) for x in man["cum_cards"]] != list(np.cumsum(want_sizes)):
            out.append((f"C17|{vendor}|prep_manifest|cumulative", f"cumulative counts {list(man['cum_cards'])}"))
        elif int(list(man["cum_cards"])[-1]) != total + extra:
            out.append((f"C17|{vendor}|prep_manifest|bound", "prepared manifest does not account for exactly the card bound"))
        res = man
    # refusals
    for bound, n_cvrs, why in ((total - 1, 0, "bound below manifest"), (total + extra, total + 1, "more CVRs than cards")):
        if bound < 0:
            continue
        try:
            prep(vendor, sizes, bound, n_cvrs)
            out.append((f"C17|{vendor}|prep_manifest|not-refused", f"prep_manifest accepted a manifest of {total} cards with bound {bound} and {n_cvrs} CVRs ({why})"))
        except AssertionError:
            pass
        except Exception as e:  # noqa
            out.append((f"C17|{vendor}|prep_manifest|refusal-exception|{type(e).__name__}", f"{why}: raised {type(e).__name__} instead of refusing cleanly"))
    return out, res


def derive(vendor, man, n_real):
    """a manifest derived from a prepared one: the real batches in reverse order (phantom batch last), counts re-accumulated"""
    order = list(range(n_real - 1, -1, -1)) + list(range(n_real, len(man)))
    m2 = man.iloc[order].reset_index(drop=True)
    col = "Total Ballots" if vendor == "dominion" else "Number of Ballots"
    m2["cum_cards"] = m2[col].astype(int).cumsum()
    return m2, order[:n_real]


def judge_lookup(vendor, sizes, extra, man, sample, derived=False):
    ref = ref_cards(vendor, sizes, extra)
    if derived:
        man, row_order = derive(vendor, man, len(sizes))
        ref = ref_cards(vendor, sizes, extra, row_order)
    arr = np.array(sample, dtype=int)  # the sample as the numpy array the sampling code produces; the caller keeps using it
    try:
        with warnings.catch_warnings():
            warnings.simplefilter("ignore")
            if vendor == "dominion":
                cards, order, mph = Dominion.sample_from_manifest(man, arr if len(sample) == 1 else list(sample))
            else:
                cards, order, mph = Hart.sample_from_manifest(man, arr if len(sample) == 1 else list(sample))
    except Exception as e:  # noqa
        return [(f"C17|{vendor}|sample_from_manifest|exception|{type(e).__name__}", f"{type(e).__name__}: {str(e)[:80]} for sample {list(sample)}")]
    out = []
    if list(arr) != list(sample):
        out.append((f"C17|{vendor}|lookup|sample-array-modified", f"sample_from_manifest changed the caller's sample array from {list(sample)} to {list(arr)}: the next use of it looks up other cards"))
    want_ids = []
    for i, s in enumerate(sample):
        r, tab, batch, pos, ph = ref[s]
        cid = f"{tab}-{batch}-{pos}"
        want_ids.append((cid, ph))
        e = order.get(cid)
        if e is None:
            out.append((f"C17|{vendor}|lookup|wrong-card", f"sample number {s} should be card {cid} (batch row {r}, position {pos}); looked-up cards {sorted(order)}"))
            break
        if e["selection_order"] != i:
            out.append((f"C17|{vendor}|lookup|selection-order", f"card {cid} drawn {i}-th has selection_order {e['selection_order']}"))
    if not out:
        got_cards = sorted(str(c[-2]) if vendor == "dominion" else str(c[-1]) for c in cards)
        if got_cards != sorted(c for c, _ in want_ids):
            out.append((f"C17|{vendor}|lookup|cards-list", f"cards {got_cards}, expected {sorted(c for c, _ in want_ids)}"))
        for c in cards:
            pos = c[-3] if vendor == "dominion" else c[-2]
            key = c[-1] if vendor == "dominion" else None
        want_ph = [c for c, ph in want_ids if ph]
        if [m.id for m in mph] != want_ph or any(not m.phantom for m in mph):
            out.append((f"C17|{vendor}|lookup|phantom-mvrs", f"phantom manual records {[m.id for m in mph]}, cards in the phantom batch {want_ph}"))
    return out


HUGE = [(100000, 50001), (60000, 0, 90001), (1000000, 1)]


def judge_huge(vendor, sizes):
    """counts in the hundreds of thousands: the refusal is exact to one card; lookups at every batch boundary"""
    total = sum(sizes)
    out = []
    for bound, n_cvrs, why in ((total - 1, 0, "bound one card below the manifest"), (total, total + 1, "one CVR more than cards")):
        try:
            prep(vendor, sizes, bound, n_cvrs)
            out.append((f"C17|{vendor}|prep_manifest|not-refused", f"prep_manifest accepted a manifest of {total} cards with bound {bound} and {n_cvrs} CVRs ({why})"))
        except AssertionError:
            pass
        except Exception as e:  # noqa
            out.append((f"C17|{vendor}|prep_manifest|refusal-exception|{type(e).__name__}", f"{why}: raised {type(e).__name__}"))
    try:
        man, mc, ph = prep(vendor, sizes, total + 2, total)
    except Exception as e:  # noqa
        return out + [(f"C17|{vendor}|prep_manifest|exception|{type(e).__name__}", f"{type(e).__name__}: {str(e)[:80]}")]
    if int(mc) != total or int(ph) != 2:
        out.append((f"C17|{vendor}|prep_manifest|counts", f"manifest_cards={mc}, phantoms={ph}; expected {total}, 2"))
    base = 1 if vendor == "dominion" else 0
    cum = np.cumsum(list(sizes) + [2])
    edges = sorted({base, base + total + 1} | {int(c) + base - 1 for c in cum if c > 0} | {int(c) + base for c in cum[:-1]})
    rows = [(10 + i, i + 1) if vendor == "dominion" else (f"t{i}", f"b{i}") for i in range(len(sizes))] + [("phantom", 1)]
    for s_ in edges:
        k = int(np.searchsorted(cum, s_ - base, side="right"))
        pos = s_ - base - (int(cum[k - 1]) if k else 0) + (1 if vendor == "dominion" else 0)
        want = f"{rows[k][0]}-{rows[k][1]}-{pos}"
        lv = []
        try:
            cards, order, mph = (Dominion if vendor == "dominion" else Hart).sample_from_manifest(man, [s_])
            if list(order) != [want]:
                lv.append((f"C17|{vendor}|lookup|wrong-card", f"sample number {s_} of a manifest with batches {list(sizes)} should be card {want}, got {list(order)}"))
            elif (len(mph) == 1) != (k == len(sizes)):
                lv.append((f"C17|{vendor}|lookup|phantom-mvrs", f"sample number {s_}: phantom manual records {[m.id for m in mph]}"))
        except Exception as e:  # noqa
            lv.append((f"C17|{vendor}|sample_from_manifest|exception|{type(e).__name__}", f"{type(e).__name__}: {str(e)[:80]}"))
        out += lv
    return out


def judge_long_sample(vendor, n_draws):
    """one long sample (every card of a manifest, from the last to the first): selection_order is the draw position throughout"""
    sizes = (n_draws // 2, 0, n_draws - n_draws // 2)
    man, mc, ph = prep(vendor, sizes, n_draws, 0)
    base = 1 if vendor == "dominion" else 0
    sample = list(range(base + n_draws - 1, base - 1, -1))
    try:
        cards, order, mph = (Dominion if vendor == "dominion" else Hart).sample_from_manifest(man, sample)
    except Exception as e:  # noqa
        return [(f"C17|{vendor}|sample_from_manifest|exception|{type(e).__name__}", f"{type(e).__name__}: {str(e)[:80]}")]
    ref = ref_cards(vendor, sizes, 0)
    for i, s_ in enumerate(sample):
        r, tab, batch, pos, _ = ref[s_]
        e = order.get(f"{tab}-{batch}-{pos}")
        if e is None or e["selection_order"] != i:
            return [(f"C17|{vendor}|lookup|selection-order", f"sample of {n_draws} draws: the card drawn {i}-th has order entry {e}")]
    if len(order) != n_draws:
        return [(f"C17|{vendor}|lookup|cards-list", f"{len(order)} cards for {n_draws} distinct sample numbers")]
    return []


def run_shard(sh, rec):
    if sh[0] == "huge":
        for vendor in ("dominion", "hart"):
            for sizes in HUGE:
                rec.state()
                rec.trans()
                rec.evals(12)
                rec.vac("huge_manifests")
                for key, what in judge_huge(vendor, sizes):
                    rec.violate(key, what, {"kind": "huge", "vendor": vendor, "sizes": list(sizes)})
        return
    if sh[0] == "long":
        _, vendor, n_draws = sh
        rec.state()
        rec.trans()
        rec.evals()
        rec.vac("long_samples")
        for key, what in judge_long_sample(vendor, n_draws):
            rec.violate(key, what, {"kind": "long", "vendor": vendor, "n": n_draws})
        return
    if sh[0] == "cvrs":
        vendor = sh[1]
        for n in (1, 2, 3, 4):
            for layout in itertools.product((False, True), repeat=n):
                rec.state()
                for r in (1, 2, 3):
                    for sample in itertools.permutations(range(n), r):
                        v = c08.judge_vendor(vendor, layout, list(sample))
                        rec.trans()
                        rec.evals()
                        for key, what in v:
                            rec.violate(key.replace("C08|", "C17|"), what, {"kind": "cvrs", "vendor": vendor, "layout": list(layout), "sample": list(sample)})
        return
    _, vendor, sizes, tier = sh
    for extra, index_kind in ((0, "range"), (1, "range"), (2, "range"), (0, "reversed"), (0, "shifted"), (1, "reversed"), (0, "used"), (2, "used"), (1, "used-exact"), (2, "used-exact"), (0, "withdrawn"), (2, "withdrawn")):
        rec.state()
        if index_kind == "withdrawn" and vendor != "dominion":
            continue
        used = {"used": True, "used-exact": "exact", "withdrawn": "withdrawn"}.get(index_kind, False)
        v, man = judge_prep(vendor, sizes, extra, "range" if used else index_kind, used)
        if used:
            rec.vac("raw_manifest_object_prepared_twice")
        elif index_kind != "range":
            rec.vac("manifests_with_foreign_index")
        rec.trans()
        rec.evals(4)
        rec.vac("refusals_checked", 2)
        feats = set()
        if any(s == 0 for s in sizes):
            feats.add("manifests_with_empty_batch")
        if extra:
            feats.add("manifests_with_phantom_batch")
        for f in feats:
            rec.vac(f)
        if feats:
            rec.outcome((vendor, sizes, extra))
        for key, what in v:
            rec.violate(key, what, {"kind": "prep", "vendor": vendor, "sizes": list(sizes), "extra": extra, "index_kind": index_kind})
        if v or man is None or index_kind == "withdrawn":
            continue  # (a withdrawn-batch manifest keeps the other batches' names: only the accounting is judged)
        ref = ref_cards(vendor, sizes, extra)
        nums = sorted(ref)
        samples = [(s,) for s in nums] + list(itertools.permutations(nums, 2))
        if tier == "thorough" and len(nums) <= 6:
            samples += list(itertools.permutations(nums, 3))
        seen_cards = set()
        for sample in samples:
            lv = judge_lookup(vendor, sizes, extra, man, sample)
            rec.trans()
            rec.evals()
            rec.trace()
            if index_kind != "range" and len(sample) > 1:
                continue  # foreign index labels: every single number is enough
            if len(sample) == 2:
                rec.vac("pairs_looked_up")
            rec.vac("phantom_cards_looked_up", sum(1 for s in sample if ref[s][4]))
            rec.observe((vendor, sizes, extra, sample, [k for k, _ in lv]))
            for key, what in lv:
                rec.violate(key, what, {"kind": "lookup", "vendor": vendor, "sizes": list(sizes), "extra": extra, "sample": list(sample), "index_kind": index_kind})
        if index_kind == "range" and len(sizes) >= 2:  # non-initial state: the same lookups on a manifest derived from the prepared one
            for s_ in nums:
                lv = judge_lookup(vendor, sizes, extra, man, (s_,), derived=True)
                rec.trans()
                rec.evals()
                rec.vac("lookups_on_derived_manifest")
                rec.observe((vendor, sizes, extra, "derived", s_, [k for k, _ in lv]))
                for key, what in lv:
                    rec.violate(key + "|derived-manifest", what + " [manifest = the prepared one with its real batches in reverse order]",
                                {"kind": "lookup", "vendor": vendor, "sizes": list(sizes), "extra": extra, "sample": [s_], "index_kind": index_kind, "derived": True})
        if rec.want_sample((vendor, sizes, extra)):
            rec.sample({"vendor": vendor, "batch_sizes": list(sizes), "phantom_batch": extra, "numbers -> (row,tab,batch,position,phantom)": {str(k): list(v) for k, v in ref.items()}})


def explore(tier, seed):
    B, S = PLAN[tier]
    sh = [("cvrs", "dominion"), ("cvrs", "hart"), ("huge",)]
    for vendor in ("dominion", "hart"):
        sh.append(("long", vendor, 300 if tier == "quick" else 2500))
    for vendor in ("dominion", "hart"):
        for b in range(1, B + 1):
            for sizes in itertools.product(range(S + 1), repeat=b):
                sh.append(("man", vendor, sizes, tier))
    return core.pmap(run_shard, sh, seed, progress="C17")


def run_case(case):
    if case["kind"] == "huge":
        return judge_huge(case["vendor"], tuple(case["sizes"]))
    if case["kind"] == "long":
        return judge_long_sample(case["vendor"], case["n"])
    if case["kind"] == "cvrs":
        return [(k.replace("C08|", "C17|"), w) for k, w in c08.judge_vendor(case["vendor"], tuple(case["layout"]), case["sample"])]
    sizes = tuple(case["sizes"])
    ik = case.get("index_kind", "range")
    v, man = judge_prep(case["vendor"], sizes, case["extra"], "range" if (ik.startswith("used") or ik == "withdrawn") else ik, {"used": True, "used-exact": "exact", "withdrawn": "withdrawn"}.get(ik, False))
    if case["kind"] == "prep" or man is None:
        return v
    lv = judge_lookup(case["vendor"], sizes, case["extra"], man, tuple(case["sample"]), bool(case.get("derived")))
    return [(k + "|derived-manifest", w) for k, w in lv] if case.get("derived") else lv
