"""C18 -- merging records for one card loses nothing and keeps its flags meaningful (S6: record lists; RAIRE reader)."""
import itertools

from shangrla.core.Audit import CVR

from vmc import core

ID = "C18"
RULE = (
    "every ordered list of at most L records over the alphabet id in {a,b} x contests subset of {c1,c2} (contents specific to "
    "the record's position, so 'later wins' is observable) x phantom x pool x tally_pool in {None,P,Q,0}, grown record by "
    "record, on fresh CVR objects (merge mutates its input): one record per identifier in first-appearance order, contests "
    "= union with the later record winning inside a contest, phantom = all, pool a genuine True/False equal to any, tally "
    "pool the common value or ValueError on conflict.  RAIRE reader: every input with 1-2 declared contests and rows for "
    "two ballot identifiers over all rankings of <= 3 candidates: k-th listed candidate gets rank k, header lines skipped, a "
    "card's contests merged.  Non-trivial = list with a repeated identifier; distinct = distinct list"
)
ASSUMPTIONS = ["identifiers are strings; the merged objects may be (and are) the first input objects themselves"]
REQUIRE_VAC = ["lists_with_repeated_id", "lists_with_overlapping_contest", "tally_pool_conflicts", "pool_true_merges", "raire_inputs"]
PLAN = {"quick": {"full": 2, "reduced": 3}, "thorough": {"full": 3, "reduced": 4}}


def bounds(tier):
    return {"max list length, full alphabet (128 records)": PLAN[tier]["full"], "max list length, reduced alphabet": PLAN[tier]["reduced"]}


def alphabet(reduced=False):
    ids = ["a", "b"]
    cons = [(), ("c1",), ("c1", "c2")] if reduced else [(), ("c1",), ("c2",), ("c1", "c2")]
    tps = [None, "P", 0] if reduced else [None, "P", "Q", 0]  # 0 is a legitimate (falsy) pool label
    return [(i, c, ph, po, tp) for i in ids for c in cons for ph in (False, True) for po in (False, True) for tp in tps]


def label(tp):
    """tally-pool labels as they come out of a parser: equal values, distinct objects"""
    if tp is None or tp == 0:
        return tp
    return "".join(["pool-", str(tp)])


def build(recs):
    out = []
    blank_style = {}  # the caller's one dictionary for every card of the style "lists no contest" (styles are commonly shared objects)
    for j, (i, cons, ph, po, tp) in enumerate(recs):
        tp = label(tp)
        votes = {c: {"A": j + 1, f"x{j}": True} for c in cons}
        if cons:
            out.append(CVR(id=i, votes=votes, phantom=ph, pool=po, tally_pool=tp))
        elif len(recs) == 1:  # a record without contests, built the short way (the constructor's own default) ...
            out.append(CVR(id=i, phantom=ph, pool=po, tally_pool=tp))
        else:  # ... or, in longer lists, from the caller's shared style dictionary
            out.append(CVR(id=i, votes=blank_style, phantom=ph, pool=po, tally_pool=tp))
    return out


def reference(recs):
    order, acc = [], {}
    conflict = False
    for j, (i, cons, ph, po, tp) in enumerate(recs):
        if i not in acc:
            order.append(i)
            acc[i] = {"votes": {}, "phantom": True, "pool": False, "tps": []}
        a = acc[i]
        for c in cons:
            a["votes"][c] = {"A": j + 1, f"x{j}": True}
        a["phantom"] = a["phantom"] and ph
        a["pool"] = a["pool"] or po
        if tp is not None and tp not in a["tps"]:
            a["tps"].append(tp)
            if len(a["tps"]) > 1:
                conflict = True
    if conflict:
        return "ValueError"
    return [(i, acc[i]["votes"], acc[i]["phantom"], acc[i]["pool"], label(acc[i]["tps"][0]) if acc[i]["tps"] else None) for i in order]


def judge(recs):
    want = reference(recs)
    try:
        got = CVR.merge_cvrs(build(recs))
    except ValueError:
        if want == "ValueError":
            return []
        return [("C18|merge|unexpected-ValueError", "merge raised ValueError although the tally pools do not conflict")]
    except Exception as e:  # noqa
        return [(f"C18|merge|exception|{type(e).__name__}", f"merge raised {type(e).__name__}: {str(e)[:80]}")]
    if want == "ValueError":
        return [("C18|merge|conflict-not-reported", f"records with the same identifier carry different tally pools but no error was raised: {[ (c.id, c.tally_pool) for c in got]}")]
    out = []
    if [c.id for c in got] != [w[0] for w in want]:
        out.append(("C18|merge|identifiers", f"merged identifiers {[c.id for c in got]}, expected one each in first-appearance order {[w[0] for w in want]}"))
        return out
    for c, (i, votes, ph, po, tp) in zip(got, want):
        if c.votes != votes:
            out.append(("C18|merge|votes", f"card {i}: merged votes {c.votes}, expected {votes}"))
        if bool(c.phantom) != ph or not isinstance(c.phantom, bool):
            out.append(("C18|merge|phantom", f"card {i}: phantom={c.phantom!r}, expected {ph} (phantom only if all were)"))
        if not (c.pool is True or c.pool is False):
            out.append(("C18|merge|pool-not-boolean", f"card {i}: pool is an object of type {type(c.pool).__name__}{' (the record itself)' if c.pool is c else ''}, not True/False"))
        elif c.pool != po:
            out.append(("C18|merge|pool", f"card {i}: pool={c.pool}, expected {po} (pooled iff at least one was)"))
        if c.tally_pool != tp:
            out.append(("C18|merge|tally_pool", f"card {i}: tally_pool={c.tally_pool!r}, expected {tp!r}"))
    seen, ded = set(), []
    for k, w in out:
        if k not in seen:
            seen.add(k)
            ded.append((k, w))
    return ded


NAMING = {
    # contest ids, candidate ids and ballot ids drawn from disjoint name spaces ...
    "disjoint": {"con1": "339", "con2": "3", "c1": ["15", "16", "17"], "c2": ["1", "2"], "b": ["b_1", "b_2", "b_3"]},
    # ... and the common case of files that number contests, candidates and ballots from 1
    "from-1": {"con1": "1", "con2": "2", "c1": ["1", "2", "3"], "c2": ["1", "2"], "b": ["1", "2", "3"]},
}


def raire_cases():
    for naming in NAMING:
        cands = NAMING[naming]["c1"]
        rankings = [p for r in range(0, 4) for p in itertools.permutations(cands, r)]
        for ncon in (1, 2):
            for r1 in rankings:
                for r2 in rankings[::5]:
                    yield {"ncon": ncon, "r1": list(r1), "r2": list(r2), "naming": naming}
                    yield {"ncon": ncon, "r1": list(r1), "r2": list(r2), "naming": naming, "repeat": True}


def judge_raire(case):
    ncon, r1, r2 = case["ncon"], case["r1"], case["r2"]
    nm = NAMING[case.get("naming", "disjoint")]
    k1, k2, b = nm["con1"], nm["con2"], nm["b"]
    rows = [[str(ncon)], ["Contest", k1, "3"] + nm["c1"]]
    if ncon == 2:
        rows.append(["Contest", k2, "2"] + nm["c2"])
    rows += [[k1, b[0]] + r1, [k1, b[1]] + r2]
    want = {b[0]: {k1: {c: k + 1 for k, c in enumerate(r1)}}, b[1]: {k1: {c: k + 1 for k, c in enumerate(r2)}}}
    if ncon == 2:
        rows.append([k2, b[0], nm["c2"][1], nm["c2"][0]])
        rows.append([k2, b[2], nm["c2"][0]])
        want[b[0]][k2] = {nm["c2"][1]: 1, nm["c2"][0]: 2}
        want[b[2]] = {k2: {nm["c2"][0]: 1}}
    if case.get("repeat"):  # the first ballot appears once more in the first contest: one card, the later row stands
        rows.append([k1, b[0]] + r2)
        want[b[0]][k1] = {c: k + 1 for k, c in enumerate(r2)}
    try:
        got, n = CVR.from_raire(rows)
        # the same rows object read once more (scripts re-use it for the next estimator): the same cards again
        got_again, _ = CVR.from_raire(rows)
    except Exception as e:  # noqa
        return [(f"C18|from_raire|exception|{type(e).__name__}", f"{type(e).__name__}: {str(e)[:80]}")]
    out = []
    if [(c.id, c.votes) for c in got_again] != [(c.id, c.votes) for c in got]:
        return [("C18|from_raire|second-read-differs", f"reading the same rows a second time gives {[(c.id, c.votes) for c in got_again][:4]}, the first time {[(c.id, c.votes) for c in got][:4]}")]
    if [c.id for c in got] != list(want):
        out.append(("C18|from_raire|identifiers", f"cards {[c.id for c in got]}, expected {list(want)} (header lines declared: {ncon})"))
        return out
    for c in got:
        if c.votes != want[c.id]:
            out.append(("C18|from_raire|ranks", f"card {c.id}: {c.votes}, expected {want[c.id]} (k-th listed candidate has rank k)"))
            break
        if c.phantom or c.pool:
            out.append(("C18|from_raire|flags", f"card {c.id}: phantom={c.phantom!r} pool={c.pool!r}"))
            break
    return out


def judge_raire_many(ncon):
    """a file that declares ncon contests (two-digit counts included); ballots in the first, a middle and the last contest"""
    rows = [[str(ncon)]] + [["Contest", f"k{j}", "2", "x", "y"] for j in range(ncon)]
    rows += [["k0", "b1", "x", "y"], [f"k{ncon // 2}", "b1", "y"], [f"k{ncon - 1}", "b2", "y", "x"]]
    want = {"b1": {"k0": {"x": 1, "y": 2}, f"k{ncon // 2}": {"y": 1}}, "b2": {f"k{ncon - 1}": {"y": 1, "x": 2}}}
    if ncon // 2 == 0:
        want["b1"] = {"k0": {"y": 1}}
    try:
        got, n = CVR.from_raire(rows)
    except Exception as e:  # noqa
        return [(f"C18|from_raire|exception|{type(e).__name__}", f"{ncon} declared contests: {type(e).__name__}: {str(e)[:80]}")]
    if [c.id for c in got] != list(want) or any(c.votes != want[c.id] for c in got):
        return [("C18|from_raire|header-lines", f"{ncon} declared contests: cards {[(c.id, c.votes) for c in got][:4]}, expected {want}")]
    return []


def judge_raire_large(K):
    """K ballots in two contests (every second ballot also in the second contest, rows thousands of lines apart), a few
    identifiers repeated at the very end: one card per identifier, in first-appearance order, later rows standing"""
    r1s = [p for r in range(0, 4) for p in itertools.permutations(["x", "y", "z"], r)]
    rows = [["2"], ["Contest", "k1", "3", "x", "y", "z"], ["Contest", "k2", "2", "u", "v"]]
    want = {}
    for i in range(K):
        r = list(r1s[i % len(r1s)])
        rows.append(["k1", f"b{i}"] + r)
        want[f"b{i}"] = {"k1": {c: k + 1 for k, c in enumerate(r)}}
    for i in range(K - 1, -1, -2):
        r = ["v", "u"] if i % 3 else ["u"]
        rows.append(["k2", f"b{i}"] + r)
        want[f"b{i}"]["k2"] = {c: k + 1 for k, c in enumerate(r)}
    for i in range(0, K, 997):
        rows.append(["k1", f"b{i}", "z"])
        want[f"b{i}"]["k1"] = {"z": 1}
    try:
        got, n = CVR.from_raire(rows)
    except Exception as e:  # noqa
        return [(f"C18|from_raire|exception|{type(e).__name__}", f"{K} ballots: {type(e).__name__}: {str(e)[:80]}")]
    if [c.id for c in got] != list(want):
        return [("C18|from_raire|identifiers", f"{len(rows)} rows for {K} ballots: {len(got)} cards, {len(set(c.id for c in got))} distinct identifiers, expected {len(want)} in first-appearance order")]
    bad = [c.id for c in got if c.votes != want[c.id]]
    if bad:
        c = next(c for c in got if c.id == bad[0])
        return [("C18|from_raire|ranks", f"{len(rows)} rows: {len(bad)} cards differ from the file, e.g. {c.id}: {c.votes}, expected {want[c.id]}")]
    return []


def run_shard(sh, rec):
    if sh[0] == "raire-large":
        rec.state()
        rec.trans()
        rec.evals()
        rec.vac("raire_inputs_of_thousands_of_rows")
        for key, what in judge_raire_large(sh[1]):
            rec.violate(key, what, {"kind": "raire-large", "K": sh[1]})
        return
    if sh[0] == "raire":
        for ncon in range(1, 26):
            rec.state()
            rec.trans()
            rec.evals()
            rec.vac("raire_inputs")
            for key, what in judge_raire_many(ncon):
                rec.violate(key, what, {"kind": "raire-many", "ncon": ncon})
        for case in raire_cases():
            rec.state()
            rec.trans()
            rec.evals()
            rec.vac("raire_inputs")
            for key, what in judge_raire(case):
                rec.violate(key, what, {"kind": "raire", **case})
        return
    _, L, first, reduced, last = sh
    alpha = alphabet(reduced)
    for rest in itertools.product(range(len(alpha)), repeat=L - 1):
        recs = [alpha[first]] + [alpha[j] for j in rest]
        rec.state()
        rec.trans()
        rec.evals()
        v = judge(recs)
        rec.observe((tuple(recs), [k for k, _ in v]))
        ids = [r[0] for r in recs]
        if len(set(ids)) < len(ids):
            rec.vac("lists_with_repeated_id")
            rec.outcome(tuple(recs))
            byid = {}
            for r in recs:
                byid.setdefault(r[0], []).append(r)
            if any(len(rs) > 1 and len(set(c for r in rs for c in r[1])) < sum(len(r[1]) for r in rs) for rs in byid.values()):
                rec.vac("lists_with_overlapping_contest")
            if reference(recs) == "ValueError":
                rec.vac("tally_pool_conflicts")
            if any(len(rs) > 1 and any(r[3] for r in rs) for rs in byid.values()):
                rec.vac("pool_true_merges")
        if last:
            rec.trace()
        for key, what in v:
            rec.violate(key, what, {"kind": "merge", "records": [list(r[:1]) + [list(r[1])] + list(r[2:]) for r in recs]})
        if rec.want_sample(tuple(recs)):
            rec.sample({"records(id,contests,phantom,pool,tally_pool)": [list(r) for r in recs], "expected": reference(recs)})


def explore(tier, seed):
    pl = PLAN[tier]
    sh = [("raire",), ("raire-large", 1500), ("raire-large", 9000)] + ([("raire-large", 60000)] if tier == "thorough" else [])
    for L in range(1, pl["full"] + 1):
        for first in range(len(alphabet())):
            sh.append(("merge", L, first, False, L == pl["full"]))
    for L in range(pl["full"] + 1, pl["reduced"] + 1):
        for first in range(len(alphabet(True))):
            sh.append(("merge", L, first, True, L == pl["reduced"]))
    return core.pmap(run_shard, sh, seed, progress="C18")


def run_case(case):
    if case["kind"] == "raire-large":
        return judge_raire_large(case["K"])
    if case["kind"] == "raire-many":
        return judge_raire_many(case["ncon"])
    if case["kind"] == "raire":
        return judge_raire(case)
    return judge([(r[0], tuple(r[1]), r[2], r[3], r[4]) for r in case["records"]])
