"""C19 -- Dominion import reflects counted marks, adjudication and grouping faithfully (S6 document lattices)."""
import atexit
import itertools
import json
import os
import shutil
import tempfile

from shangrla.formats.Dominion import Dominion

from vmc import core

ID = "C19"
RULE = (
    "exports built as Python dicts, written to a per-process temp directory and read by Dominion.read_cvrs: (A) every "
    "sequence of at most M marks over candidate {A,B} x rank {0,1,2} x IsVote {T,F} (hence every order of every multiset) x "
    "enforce_rules x use_current; (B) adjudication: Original only / Original then Modified / Modified then Original (key "
    "order in the file) x contests present in Original x contests covered by Modified x layout of each block independently (flat, 'Cards' with one or "
    "two cards) x use_current x enforce_rules; (C) 1-2 sessions x counting groups x numeric or obfuscated ('X' + ImageMask) "
    "record identifiers x include_groups x pool_groups; (D) directories of 1-3 export files (plus decoys) through read_cvrs_directory.  Oracle: reference importer written from the property text.  "
    "Non-trivial = export with a repeated candidate, an uncounted mark, adjudicated data or a filtered session; distinct = "
    "distinct (document, options)"
)
ASSUMPTIONS = ["a candidate with counted marks but no positive rank is recorded with a falsy value (no vote)", "rank and identifier values are JSON integers / strings as in real exports"]
REQUIRE_VAC = ["docs_repeated_candidate", "docs_uncounted_mark", "docs_modified_before_original", "docs_modified_after_original", "sessions_filtered_out", "obfuscated_ids", "cards_layout_docs"]
PLAN = {"quick": 3, "thorough": 4}
_DIR = None


def tmpfile():
    """one file per process inside a parent directory that explore() / run_case() removes"""
    global _DIR
    if _DIR is None or not os.path.isdir(_DIR):
        base = "/dev/shm" if os.path.isdir("/dev/shm") else None
        _DIR = tempfile.mkdtemp(prefix="vmc-c19-", dir=base)
        atexit.register(shutil.rmtree, _DIR, True)
    return os.path.join(_DIR, f"CvrExport_{os.getpid()}.json")


def bounds(tier):
    return {"max marks per contest": PLAN[tier], "mark alphabet": "candidate {A,B} x rank {0,1,2} x IsVote {T,F}", "key orders": ["Original", "Original,Modified", "Modified,Original"],
            "layouts": ["flat", "Cards x1", "Cards x2"], "options": "use_current x enforce_rules x include_groups x pool_groups"}


MARKS = [(c, r, v) for c in (1, 2) for r in (0, 1, 2) for v in (True, False)]


def mk_marks(seq):
    return [{"CandidateId": c, "Rank": r, "IsVote": v, "MarkDensity": 100} for c, r, v in seq]


def ref_contest(seq, enforce):
    votes = {}
    for c, r, v in seq:
        if v or not enforce:
            votes.setdefault(str(c), []).append(r)
    out = {}
    for c, rs in votes.items():
        pos = [r for r in rs if r > 0]
        out[c] = min(pos) if pos else 0
    return out


def votes_equal(got, want):
    if set(got) != set(want):
        return False
    for k, w in want.items():
        g = got[k]
        if w > 0:
            if not (g == w and not isinstance(g, bool)):
                return False
        elif bool(g):
            return False
    return True


def container(contests, layout):
    """contests: list of (contest id, mark seq)"""
    cl = [{"Id": cid, "Marks": mk_marks(seq)} for cid, seq in contests]
    if layout == "flat":
        return {"Contests": cl, "IsCurrent": True}
    if layout == "cards1":
        return {"IsCurrent": True, "Cards": [{"Id": 1, "Contests": cl}]}
    return {"IsCurrent": True, "Cards": [{"Id": 1, "Contests": cl[:1]}, {"Id": 2, "Contests": cl[1:]}]}


def session(tab, batch, rec, group, parts, mask="D:\\NAS\\img\\00007_00003_000042.tif"):
    """parts: ordered list of (key, contests, layout) with key in Original/Modified"""
    if isinstance(rec, str) and rec.startswith("X") and len(rec) > 1:  # obfuscated identifier: the record number is in the image name, zero-padded
        mask = "D:\\NAS\\img\\00007_00003_%06d.tif" % int(rec[1:])
        rec = "X"
    s = {"TabulatorId": tab, "BatchId": batch, "RecordId": rec, "CountingGroupId": group, "ImageMask": mask, "SessionType": "ScannedVote"}
    for key, contests, layout in parts:
        s[key] = container(contests, layout)
    return s


def ref_session(s_spec, opts):
    tab, batch, rec, group, parts = s_spec
    if opts["include_groups"] and group not in opts["include_groups"]:
        return None
    votes = {}
    byk = {k: (c, l) for k, c, l in parts}
    order = ["Original", "Modified"] if opts["use_current"] else ["Original"]
    for k in order:  # adjudicated data replace original data per contest, whatever the key order in the file
        if k in byk:
            for cid, seq in byk[k][0]:
                votes[str(cid)] = ref_contest(seq, opts["enforce_rules"])
    rid = rec
    if rec == "X":
        rid = 42
    elif isinstance(rec, str) and rec.startswith("X"):
        rid = int(rec[1:])
    return (f"{tab}-{batch}-{rid}", f"{tab}-{batch}", group in opts["pool_groups"], votes)


def judge(doc_spec, opts):
    """doc_spec: list of session specs (tab, batch, rec, group, parts)"""
    doc = {"Version": "5.10", "ElectionId": "x", "Sessions": [session(*s) for s in doc_spec]}
    path = tmpfile()
    with open(path, "w") as f:
        json.dump(doc, f)
    try:
        got = Dominion.read_cvrs(path, use_current=opts["use_current"], enforce_rules=opts["enforce_rules"],
                                 include_groups=opts["include_groups"], pool_groups=opts["pool_groups"])
    except Exception as e:  # noqa
        return [(f"C19|exception|{type(e).__name__}", f"read_cvrs raised {type(e).__name__}: {str(e)[:80]}")]
    want = [r for r in (ref_session(s, opts) for s in doc_spec) if r is not None]
    out = []
    if len(got) != len(want):
        return [("C19|records|count", f"{len(got)} records for {len(want)} sessions of the included counting groups")]
    for c, (cid, tp, pool, votes) in zip(got, want):
        if c.id != cid:
            out.append(("C19|records|identifier", f"identifier {c.id!r}, expected {cid!r}"))
        if c.tally_pool != tp:
            out.append(("C19|records|tally_pool", f"tally pool {c.tally_pool!r}, expected {tp!r}"))
        if c.pool is not pool:
            out.append(("C19|records|pool", f"pool={c.pool!r}, expected {pool} (counting group designated for pooling)"))
        if set(c.votes) != set(votes):
            out.append(("C19|votes|contests", f"contests {sorted(c.votes)}, expected {sorted(votes)}"))
        else:
            for con in votes:
                if not votes_equal(c.votes[con], votes[con]):
                    kinds = {k for k, _, _ in next(s for s in doc_spec if f"{s[0]}-{s[1]}" == tp)[4]}
                    sub = "adjudication" if "Modified" in kinds else "marks"
                    out.append((f"C19|votes|{sub}", f"contest {con}: recorded {c.votes[con]}, expected {votes[con]} (options {opts})"))
                    break
        if c.phantom:
            out.append(("C19|records|phantom", "imported record flagged as phantom"))
    seen, ded = set(), []
    for k, w in out:
        if k not in seen:
            seen.add(k)
            ded.append((k, w))
    return ded


def judge_directory(nfiles, opts):
    """read_cvrs_directory: the files CvrExport_*.json of a directory, in sorted file-name order, each in file order"""
    d = tempfile.mkdtemp(prefix="dir-", dir=os.path.dirname(tmpfile()))
    try:
        names = ["CvrExport_1.json", "CvrExport_10.json", "CvrExport_2.json", "notes.json", "CvrExport.json"][: nfiles + 2] if nfiles >= 3 else \
            ["CvrExport_2.json", "CvrExport_1.json", "other.json"][: nfiles + 1]
        specs = {}
        for j, nm in enumerate(names):
            spec = [(20 + j, 1, 5 + i, 1 + (i + j) % 2, [("Original", [("c1", VARIANTS["d" if (i + j) % 2 else "c"])], "flat"),
                                                          ("Modified", [("c1", VARIANTS["b"])], "flat")][: 1 + (i % 2)]) for i in range(2)]
            specs[nm] = spec
            with open(os.path.join(d, nm), "w") as f:
                json.dump({"Sessions": [session(*s_) for s_ in spec]}, f)
        try:
            got = Dominion.read_cvrs_directory(d, use_current=opts["use_current"], enforce_rules=opts["enforce_rules"],
                                               include_groups=opts["include_groups"], pool_groups=opts["pool_groups"])
        except Exception as e:  # noqa
            return [(f"C19|directory|exception|{type(e).__name__}", f"read_cvrs_directory raised {type(e).__name__}: {str(e)[:80]}")]
        want = []
        for nm in sorted(n_ for n_ in names if n_.startswith("CvrExport_") and n_.endswith(".json")):
            want += [r for r in (ref_session(s_, opts) for s_ in specs[nm]) if r is not None]
        if [c.id for c in got] != [w[0] for w in want]:
            return [("C19|directory|records", f"records {[c.id for c in got]}, expected {[w[0] for w in want]} (files {names})")]
        if [c.pool for c in got] != [w[2] for w in want] or any(not votes_equal(c.votes.get("c1", {}), w[3]["c1"]) for c, w in zip(got, want)):
            return [("C19|directory|contents", "records read from a directory differ from the same files read one by one")]
        return []
    finally:
        shutil.rmtree(d, ignore_errors=True)


def O(**kw):
    d = {"use_current": True, "enforce_rules": True, "include_groups": [], "pool_groups": []}
    d.update(kw)
    return d


VARIANTS = {"a": [(1, 1, True)], "b": [(2, 1, True)], "c": [(1, 2, True), (2, 1, True)], "d": [(1, 1, False), (2, 0, True)]}


def part_b_cases():
    for order in (("Original",), ("Original", "Modified"), ("Modified", "Original")):
        for oc in (("c1",), ("c1", "c2")):
            for mc in ((("c1",), ("c2",), ("c1", "c2"), ("c3",)) if "Modified" in order else ((),)):
                # the two blocks of one session need not use the same layout
                for layout, mlayout in itertools.product(("flat", "cards1", "cards2"), ("flat", "cards1", "cards2") if "Modified" in order else (None,)):
                    for ov, mv in itertools.product("abd", "bcd"):
                        parts = []
                        for k in order:
                            if k == "Original":
                                parts.append(("Original", [(c, VARIANTS[ov]) for c in oc], layout))
                            else:
                                parts.append(("Modified", [(c, VARIANTS[mv]) for c in mc], mlayout))
                        for uc in (True, False):
                            for er in (True, False):
                                yield [(7, 3, 11, 2, parts)], O(use_current=uc, enforce_rules=er)


def part_e_cases():
    """tabulator / batch numbers whose concatenation without a separator coincides: (1,11) v (11,1), (1,12) v (11,2), (12,3) v (1,23)"""
    pairs = [(1, 11), (11, 1), (1, 12), (11, 2), (12, 3), (1, 23), (2, 2)]
    for order in itertools.permutations(range(len(pairs)), 3):
        spec = [(pairs[i][0], pairs[i][1], 5 + j, 1, [("Original", [("c1", VARIANTS["a"])], "flat")]) for j, i in enumerate(order)]
        yield spec, O()


def part_c_cases():
    for nses in (1, 2):
        for groups in itertools.product((1, 2), repeat=nses):
            for recs in itertools.product((5, "X", "X120", "X1000", "X7"), repeat=nses):
                for ig in ([], [1], [2]):
                    for pg in ([], [1], [2], [1, 2]):
                        spec = [(7 + i, 3 + i, recs[i], groups[i], [("Original", [("c1", VARIANTS["a" if i == 0 else "b"])], "flat")]) for i in range(nses)]
                        yield spec, O(include_groups=ig, pool_groups=pg)


def run_shard(sh, rec):
    if sh[0] == "A":
        _, L, first = sh
        for rest in itertools.product(range(len(MARKS)), repeat=max(0, L - 1)):
            seq = ([MARKS[first]] if L else []) + [MARKS[j] for j in rest]
            rec.state()
            cands = [c for c, _, _ in seq]
            for er in (True, False):
                for uc in (True, False):
                    spec = [(7, 3, 11, 2, [("Original", [("c1", seq)], "flat")])]
                    opts = O(enforce_rules=er, use_current=uc)
                    v = judge(spec, opts)
                    rec.trans()
                    rec.evals()
                    rec.trace()
                    rec.observe((tuple(seq), er, uc, [k for k, _ in v]))
                    if len(set(cands)) < len(cands):
                        rec.vac("docs_repeated_candidate")
                        rec.outcome((tuple(seq), er, uc))
                    if any(not x for _, _, x in seq):
                        rec.vac("docs_uncounted_mark")
                        rec.outcome((tuple(seq), er, uc))
                    for key, what in v:
                        rec.violate(key, what, {"spec": spec, "opts": opts})
                    if rec.want_sample((tuple(seq), er, uc)):
                        rec.sample({"marks(candidate,rank,IsVote)": seq, "enforce_rules": er, "use_current": uc, "expected_votes": ref_contest(seq, er)})
            if not L:
                break
    elif sh[0] == "D":
        for nfiles in (1, 2, 3):
            for ig, pg, uc, er in itertools.product(([], [1], [2]), ([], [2]), (True, False), (True, False)):
                if True:
                    opts = O(include_groups=ig, pool_groups=pg, use_current=uc, enforce_rules=er)
                    v = judge_directory(nfiles, opts)
                    rec.state()
                    rec.trans()
                    rec.evals()
                    rec.trace()
                    rec.vac("directories_read")
                    for key, what in v:
                        rec.violate(key, what, {"dir": nfiles, "opts": opts})
    else:
        gen = part_b_cases() if sh[0] == "B" else (part_e_cases() if sh[0] == "E" else part_c_cases())
        for i, (spec, opts) in enumerate(gen):
            if i % sh[2] != sh[1]:
                continue
            rec.state()
            v = judge(spec, opts)
            rec.trans()
            rec.evals()
            rec.trace()
            rec.observe((repr(spec), repr(opts), [k for k, _ in v]))
            keys = [k for k, _, _ in spec[0][4]]
            if keys == ["Modified", "Original"]:
                rec.vac("docs_modified_before_original")
                rec.outcome((repr(spec), repr(opts)))
            if keys == ["Original", "Modified"]:
                rec.vac("docs_modified_after_original")
                rec.outcome((repr(spec), repr(opts)))
            if any(p[2] != "flat" for s in spec for p in s[4]):
                rec.vac("cards_layout_docs")
            if opts["include_groups"] and any(s[3] not in opts["include_groups"] for s in spec):
                rec.vac("sessions_filtered_out")
                rec.outcome((repr(spec), repr(opts)))
            if any(isinstance(s[2], str) and s[2].startswith("X") for s in spec):
                rec.vac("obfuscated_ids")
            for key, what in v:
                rec.violate(key, what, {"spec": spec, "opts": opts})
            if rec.want_sample((repr(spec), repr(opts))):
                rec.sample({"sessions(tab,batch,record,group,parts)": spec, "options": opts})


def explore(tier, seed):
    sh = [("A", 0, 0)]
    for L in range(1, PLAN[tier] + 1):
        for first in range(len(MARKS)):
            sh.append(("A", L, first))
    for r in range(8):
        sh.append(("B", r, 8))
    sh.append(("C", 0, 1))
    sh.append(("D",))
    sh.append(("E", 0, 1))
    tmpfile()  # create the parent directory before forking; removed below (and at exit)
    try:
        return core.pmap(run_shard, sh, seed, progress="C19")
    finally:
        shutil.rmtree(_DIR, ignore_errors=True)


def run_case(case):
    if "dir" in case:
        return judge_directory(case["dir"], case["opts"])
    spec = [(s[0], s[1], s[2], s[3], [(p[0], [(c[0], [tuple(m) for m in c[1]]) for c in p[1]], p[2]) for p in s[4]]) for s in case["spec"]]
    return judge(spec, case["opts"])
