"""C20 -- elimination tree shows an unpruned leaf iff the assertions are insufficient (S7 assertion-set lattice)."""
import contextlib
import io
import itertools
import warnings

from shangrla.core import IRVVisualisationUtils as V

from vmc import core
from vmc.ref import raire as R

ID = "C20"
RULE = (
    "candidates n in {3,4}; every alternative winner; assertion sets grown one assertion at a time from the universe of NEB "
    "pairs and NEN (candidate, eliminated set) items (15 for n=3, 40 for n=4) with confirmed / unconfirmed flags: all "
    "subsets for n=3, all subsets up to the size bound for n=4 -- insufficient, redundant and mutually inconsistent sets "
    "included.  The tree from buildRemainingTreeAsLists (and its treeListToTuple rendering) must contain an unpruned leaf "
    "iff some of the (n-1)! elimination orders ending in that candidate is contradicted by no assertion (brute force), and "
    "every pruned node's tag lists must be exactly the assertions about the candidate eliminated at that node that "
    "contradict every completion of the node's path (brute force over completions).  The same sets go through buildPrintedResults for every apparent winner (the drawing library replaced by a recorder): every drawn tree's unpruned leaves must be exactly the uncontradicted orders.  The sets (all for n=3, of size <= 2 for n=4) also make the round trip real IRV Contest -> audit assertions with confirmation flags -> the audit log's JSON -> parseAssertions, which must give back the same pruning tuples.  Non-trivial = tree with at least one pruned node below the root; distinct = distinct "
    "(n, root, assertion set)"
)
ASSUMPTIONS = ["an assertion listed twice is numbered twice (every copy that contradicts a node is named in its tag)", "NEN items whose eliminated set is everyone else are not well-formed and excluded"]
REQUIRE_VAC = ["lists_with_a_repeated_assertion", "audit_logs_parsed", "buildPrintedResults_runs", "trees_with_unpruned_leaf", "trees_fully_pruned", "trees_pruned_below_root", "nodes_with_two_tags"]
NAMES = ["1", "12", "11", "2"]  # identifiers that collide when concatenated without a separator ({1,12} v {11,2})
PLAN = {"quick": {3: 15, 4: 3}, "thorough": {3: 15, 4: 5}}


def bounds(tier):
    return {"n=3": "all 2^15 subsets", "n=4": f"all subsets of size <= {PLAN[tier][4]} of 40", "roots": "every candidate", "candidate identifiers": "strings; integers as well for n=3", "confirmation flags": "by position parity, and all-unconfirmed"}


def universe(n):
    U = []
    for w in range(n):
        for l in range(n):
            if w != l:
                U.append(("NEB", w, l))
    for c in range(n):
        others = [x for x in range(n) if x != c]
        for r in range(len(others)):
            for E in itertools.combinations(others, r):
                U.append(("NEN", c, frozenset(E)))
    return U


def contradicts(a, pi):
    if a[0] == "NEB":
        return pi.index(a[1]) < pi.index(a[2])
    E = a[2]
    return set(pi[: len(E)]) == set(E) and pi[len(E)] == a[1]


def to_lists(asns, flags, names=NAMES):
    WO, IRV = [], []
    for a, p in zip(asns, flags):
        if a[0] == "NEB":
            WO.append((names[a[2]], names[a[1]], p))  # (loser, winner, proved)
        else:
            IRV.append((names[a[1]], {names[x] for x in a[2]}, p))
    return WO, IRV


INT_IDS = [10, 11, 12, 13]  # candidate identifiers need not be strings


def walk(tree, path, out):
    """collect (path from root, kind, NEB tags, IRV tags) for leaves"""
    if len(tree) == 1:
        node = tree[0]
        pruned = bool(node.NEBTagList or node.IRVTagList)
        out.append((path + [node.cand], pruned, list(node.NEBTagList), list(node.IRVTagList)))
        return
    c, kids = tree
    for k in kids:
        walk(k, path + [c], out)


def judge(n, root, asns, flags, int_ids=False):
    names = INT_IDS if int_ids else NAMES
    WO, IRV = to_lists(asns, flags, names)
    S = {names[x] for x in range(n) if x != root}
    try:
        with contextlib.redirect_stdout(io.StringIO()), warnings.catch_warnings():
            warnings.simplefilter("ignore")
            tree = V.buildRemainingTreeAsLists(names[root], set(S), list(WO), list(IRV))
            rendered = V.treeListToTuple(tree)
    except Exception as e:  # noqa
        return [(f"C20|exception|{type(e).__name__}", f"{type(e).__name__}: {str(e)[:80]} (candidate identifiers {'integers' if int_ids else 'strings'})")], None
    if int_ids:  # judge the same tree with the string names put back
        back = {i: s_ for i, s_ in zip(INT_IDS, NAMES)}

        def ren(t):
            if len(t) == 1:
                return [V.LeafNode(cand=back[t[0].cand], NEBTagList=t[0].NEBTagList, IRVTagList=t[0].IRVTagList)]
            return [back[t[0]], [ren(k) for k in t[1]]]

        tree = ren(tree)
    leaves = []
    walk(tree, [], leaves)
    out = []
    # (1) unpruned leaf iff some order ending in root is uncontradicted
    orders = [pi + (root,) for pi in itertools.permutations([x for x in range(n) if x != root])]
    free = [pi for pi in orders if not any(contradicts(a, pi) for a in asns)]
    has_unpruned = any(not pr for _, pr, _, _ in leaves)
    if has_unpruned != bool(free):
        out.append(("C20|unpruned-leaf-vs-sufficiency", f"root {NAMES[root]}: tree has an unpruned leaf = {has_unpruned}, but {len(free)} elimination orders ending in {NAMES[root]} "
                    f"are contradicted by no assertion (e.g. {[NAMES[x] for x in free[0]] if free else None})"))
    # the unpruned leaves must be exactly the uncontradicted orders
    got_free = sorted(tuple(NAMES.index(c) for c in reversed(p)) for p, pr, _, _ in leaves if not pr)
    if not out and got_free != sorted(free):
        out.append(("C20|unpruned-leaves-set", f"unpruned leaves {got_free}, uncontradicted orders {sorted(free)}"))
    # (2) tags of every pruned node = assertions contradicting every completion of its path
    wo_idx = [i for i, a in enumerate(asns) if a[0] == "NEB"]
    irv_idx = [i for i, a in enumerate(asns) if a[0] == "NEN"]
    two = False
    for p, pr, nt, it in leaves:
        if not pr:
            continue
        suffix = tuple(NAMES.index(c) for c in reversed(p))  # node first ... root last
        rest = [x for x in range(n) if x not in suffix]
        comps = [tuple(q) + suffix for q in itertools.permutations(rest)]
        want_n = [k for k, i in enumerate(wo_idx) if all(contradicts(asns[i], c) for c in comps)]
        want_i = [k for k, i in enumerate(irv_idx) if all(contradicts(asns[i], c) for c in comps)]
        # tags are the assertions about the candidate eliminated at this node (NEB with that loser, NEN with that
        # candidate) among those that contradict every completion; assertions about candidates deeper in the tree
        # that happen to be forced (a single remaining candidate) are tagged further down, if the tree gets there
        cnode = suffix[0]
        want_n = [k for k in want_n if asns[wo_idx[k]][2] == cnode]
        want_i = [k for k in want_i if asns[irv_idx[k]][1] == cnode]
        if sorted(t[0] for t in nt) != want_n or sorted(t[0] for t in it) != want_i:
            out.append(("C20|tags", f"node {'<'.join(reversed(p))} tagged NEB {sorted(t[0] for t in nt)} IRV {sorted(t[0] for t in it)}, assertions contradicting it: NEB {want_n} IRV {want_i}"))
            break
        if any(t[1] != flags[wo_idx[t[0]]] for t in nt) or any(t[1] != flags[irv_idx[t[0]]] for t in it):
            out.append(("C20|tag-confirmation-flag", f"node {'<'.join(reversed(p))}: tag flags {nt} {it} do not match the assertions' confirmation flags"))
            break
        if len(nt) + len(it) >= 2:
            two = True
    # (3) rendering
    text = repr(rendered)
    marks = text.count("Unpruned leaf")
    if marks != sum(1 for _, pr, _, _ in leaves if not pr):
        out.append(("C20|rendering|unpruned-marker", f"rendering shows {marks} 'Unpruned leaf' markers for {sum(1 for _, pr, _, _ in leaves if not pr)} unpruned leaves"))
    info = {"unpruned": has_unpruned, "below_root": any(pr and len(p) > 1 for p, pr, _, _ in leaves), "two": two}
    return out, info


def judge_wide(n, k, kind):
    """many assertions about one node: candidate 0 (root or a child of root 1) loses k NEB assertions / has duplicated NEN items;
    the list-form tags and the rendered label must both name every one of them"""
    names = [str(100 + i) for i in range(n)]
    if kind == "root":
        WO = [(names[0], names[w], w % 2 == 0) for w in range(1, k + 1)]
        S = set(names[1:])
        want = list(range(k))
        try:
            with contextlib.redirect_stdout(io.StringIO()), warnings.catch_warnings():
                warnings.simplefilter("ignore")
                tree = V.buildRemainingTreeAsLists(names[0], set(S), list(WO), [])
                rendered = V.treeListToTuple(tree)
        except Exception as e:  # noqa
            return [(f"C20|exception|{type(e).__name__}", f"{type(e).__name__}: {str(e)[:80]}")]
        if len(tree) != 1 or sorted(t[0] for t in tree[0].NEBTagList) != want:
            return [("C20|tags", f"root losing {k} NEB assertions is tagged {tree[0].NEBTagList if len(tree) == 1 else 'not pruned'}")]
        label = rendered[1]
        shown = sorted(int(x) for x in label.split("NEB ")[1].split("\n")[0].split(",")) if "NEB " in label else []
        if shown != want:
            return [("C20|rendering|tag-numbers", f"the drawn label of a node contradicted by NEB assertions {want} shows {shown}")]
    return []


def judge_printed(n, asns, flags, winner):
    """the user-facing route: buildPrintedResults draws one tree per apparent non-winner; what it hands to the drawing
    library (recorded by a stand-in for svgling.draw_tree) must be the rendering of that candidate's tree, whose unpruned
    leaves are exactly the uncontradicted orders ending in that candidate"""
    WO, IRV = to_lists(asns, flags)
    drawn = []

    class _Stub:
        @staticmethod
        def draw_tree(t, *a, **k):
            drawn.append(t)
            return "drawing"

    real, realcap = V.svgling, V.Caption
    V.svgling, V.Caption = _Stub, (lambda d, text: text)
    try:
        with contextlib.redirect_stdout(io.StringIO()), warnings.catch_warnings():
            warnings.simplefilter("ignore")
            nonw = [(NAMES[c], f"name{c}") for c in range(n) if c != winner]
            caps = V.buildPrintedResults(NAMES[winner], list(nonw), list(WO), list(IRV))
    except Exception as e:  # noqa
        return [(f"C20|printed|exception|{type(e).__name__}", f"buildPrintedResults raised {type(e).__name__}: {str(e)[:80]}")]
    finally:
        V.svgling, V.Caption = real, realcap
    out = []
    if len(drawn) != n - 1:
        return [("C20|printed|tree-count", f"{len(drawn)} trees drawn for {n - 1} apparent non-winners")]
    for (cname, _), t in zip(nonw, drawn):
        root = NAMES.index(cname)

        def leaves(t, path):
            if len(t) == 2 and isinstance(t[1], str):
                yield path + [t[0]], t[1]
            else:
                for k in t[1:]:
                    yield from leaves(k, path + [t[0]])

        if t[0] != cname:
            out.append(("C20|printed|root", f"the tree drawn for {cname} has root {t[0]}"))
            continue
        lv = list(leaves(t, []))
        got_free = sorted(tuple(NAMES.index(c) for c in reversed(p)) for p, tag in lv if "Unpruned leaf" in tag)
        if any(len(set(p)) != len(p) for p, _ in lv):
            out.append(("C20|printed|candidate-twice-on-a-path", f"tree drawn for {cname}: a path names a candidate twice: {[p for p, _ in lv if len(set(p)) != len(p)][0]}"))
            continue
        orders = [pi + (root,) for pi in itertools.permutations([x for x in range(n) if x != root])]
        free = sorted(pi for pi in orders if not any(contradicts(a, pi) for a in asns))
        if got_free != free:
            out.append(("C20|printed|unpruned-leaves", f"tree drawn for alternative winner {cname} (apparent winner {NAMES[winner]}) marks unpruned leaves {got_free}; "
                        f"orders contradicted by no assertion: {free}"))
    return out


def judge_parsed(n, asns, flags, winner=0):
    """the route an observer takes: the assertions are given to a real IRV Contest (assertion_json), made into audit
    assertions, marked confirmed / unconfirmed, written as the audit's log (the library's own JSON encoding) and read back
    by parseAssertions: what comes out must be the same assertions with the same flags, and the trees built from it must
    satisfy the property"""
    import json
    from shangrla.core.Audit import Assertion, Audit, Contest, NpEncoder
    names = NAMES[:n]
    js = []
    for k, a in enumerate(asns):
        if a[0] == "NEB":  # nothing eliminated: written "" (as RAIRE does) or [] (as make_assertions_from_json also accepts)
            js.append({"winner": names[a[1]], "loser": names[a[2]], "assertion_type": "WINNER_ONLY", "already_eliminated": "" if k % 2 == 0 else []})
        else:
            other = [c for c in range(n) if c != a[1] and c not in a[2]]
            js.append({"winner": names[a[1]], "loser": names[other[0]], "assertion_type": "IRV_ELIMINATION", "already_eliminated": [names[c] for c in sorted(a[2])]})
    try:
        with contextlib.redirect_stdout(io.StringIO()), warnings.catch_warnings():
            warnings.simplefilter("ignore")
            con = Contest.from_dict({"id": "1", "name": "1", "risk_limit": 0.05, "cards": 10, "choice_function": Contest.SOCIAL_CHOICE_FUNCTION.IRV, "n_winners": 1,
                                     "candidates": list(names), "winner": [names[winner]], "assertion_file": "x", "assertion_json": js,
                                     "audit_type": Audit.AUDIT_TYPE.CARD_COMPARISON, "test": None, "use_style": True})
            cons = {"1": con}
            Assertion.make_all_assertions(cons)
            if len(con.assertions) != len(asns):
                return [("C20|parsed|assertion-lost-before-log", f"{len(con.assertions)} audit assertions for {len(asns)} assertions")]
            for asn, fl in zip(con.assertions.values(), flags):
                asn.proved = fl
            audit = Audit.from_dict({"seed": 1, "strata": {"s": {"max_cards": 10, "use_style": True, "replacement": False}}})
            log = json.loads(json.dumps({"Audit": audit, "contests": cons}, cls=NpEncoder))
            cand_file = {"List": [{"Id": nm, "Description": f"name{nm}"} for nm in names]}
            (aw, awn), nonw, WO, IRV = V.parseAssertions(log, cand_file)
    except Exception as e:  # noqa
        return [(f"C20|parsed|exception|{type(e).__name__}", f"{type(e).__name__}: {str(e)[:100]}")]
    want_WO, want_IRV = to_lists(asns, flags)
    out = []
    if aw != names[winner] or sorted(c for c, _ in nonw) != sorted(nm for nm in names if nm != names[winner]):
        out.append(("C20|parsed|candidates", f"apparent winner {aw}, non-winners {nonw}"))
    if [(l, w, bool(p)) for l, w, p in WO] != [(l, w, bool(p)) for l, w, p in want_WO]:
        out.append(("C20|parsed|NEB-list", f"parseAssertions gives not-eliminated-before tuples {WO}, the log holds {want_WO}"))
    if [(c, set(E), bool(p)) for c, E, p in IRV] != [(c, set(E), bool(p)) for c, E, p in want_IRV]:
        out.append(("C20|parsed|NEN-list", f"parseAssertions gives not-eliminated-next tuples {IRV}, the log holds {want_IRV}"))
    return out


def flags_for(k, mode):
    return [False] * k if mode == 0 else [(i % 2 == 0) for i in range(k)]


def run_shard(sh, rec):
    if sh[0] == "wide":
        for n in (9, 14):
            for k in range(1, n):
                rec.state()
                rec.trans()
                rec.evals()
                rec.vac("wide_nodes")
                for key, what in judge_wide(n, k, "root"):
                    rec.violate(key, what, {"wide": True, "n": n, "k": k})
        return
    n, size, first = sh
    U = universe(n)
    combos = [()] if size == 0 else (tuple([first]) + rest for rest in itertools.combinations(range(first + 1, len(U)), size - 1))
    for idx in combos:
        asns = [U[i] for i in idx]
        rec.state()
        rec.trans()
        for mode in (0, 1):
            if mode == 1 and not asns:
                continue
            fl = flags_for(len(asns), mode)
            if asns and (n == 3 or len(asns) <= 2):
                pv = judge_parsed(n, asns, fl, winner=idx[0] % n)
                rec.evals()
                rec.vac("audit_logs_parsed")
                for key, what in pv:
                    rec.violate(key, what, {"parsed": True, "n": n, "winner": idx[0] % n, "assertions": [[a[0], a[1], a[2] if a[0] == "NEB" else sorted(a[2])] for a in asns], "flags": fl})
            for root, int_ids in [(r, False) for r in range(n)] + ([(r, True) for r in range(n)] if (n == 3 and mode == 0) else []):
                v, info = judge(n, root, asns, fl, int_ids)
                rec.evals()
                rec.trace()
                rec.observe((n, idx, mode, root, info and sorted(info.items())))
                if info:
                    rec.vac("trees_with_unpruned_leaf" if info["unpruned"] else "trees_fully_pruned")
                    if info["below_root"]:
                        rec.vac("trees_pruned_below_root")
                        rec.outcome((n, root, idx))
                    if info["two"]:
                        rec.vac("nodes_with_two_tags")
                for key, what in v:
                    rec.violate(key, what, {"n": n, "root": root, "assertions": [[a[0], a[1], a[2] if a[0] == "NEB" else sorted(a[2])] for a in asns], "flags": fl, "int_ids": int_ids})
                if not int_ids and mode == 0:
                    pv = judge_printed(n, asns, fl, root)
                    rec.evals()
                    rec.vac("buildPrintedResults_runs")
                    for key, what in pv:
                        rec.violate(key, what, {"printed": True, "n": n, "winner": root, "assertions": [[a[0], a[1], a[2] if a[0] == "NEB" else sorted(a[2])] for a in asns], "flags": fl})
                if asns and mode == 0 and not int_ids and n == 3:
                    # the same set with its first assertion listed once more at the end (a redundant list: e.g. two
                    # not-eliminated-next assertions that differ only in their loser become the same pruning tuple): the
                    # nodes it contradicts must name both copies
                    v2, _ = judge(n, root, asns + [asns[0]], fl + [fl[0]], False)
                    rec.evals()
                    rec.vac("lists_with_a_repeated_assertion")
                    for key, what in v2:
                        rec.violate(key + "|repeated-assertion", what + " [first assertion listed again at the end]",
                                    {"n": n, "root": root, "assertions": [[a[0], a[1], a[2] if a[0] == "NEB" else sorted(a[2])] for a in asns + [asns[0]]], "flags": fl + [fl[0]], "int_ids": False, "repeated": True})
                if rec.want_sample((n, idx, mode, root)):
                    rec.sample({"candidates": n, "alternative_winner": NAMES[root], "assertions": [show(a) for a in asns], "confirmed": fl, "tree_has_unpruned_leaf": info and info["unpruned"]})


def show(a):
    if a[0] == "NEB":
        return f"NEB: {NAMES[a[1]]} not eliminated before {NAMES[a[2]]}"
    return f"NEN: {NAMES[a[1]]} not next when {{{','.join(NAMES[x] for x in sorted(a[2]))}}} eliminated"


def explore(tier, seed):
    sh = [("wide",)]
    for n, maxsize in PLAN[tier].items():
        U = universe(n)
        sh.append((n, 0, 0))
        for size in range(1, maxsize + 1):
            for first in range(len(U) - size + 1):
                sh.append((n, size, first))
    return core.pmap(run_shard, sh, seed, progress="C20")


def run_case(case):
    if case.get("wide"):
        return judge_wide(case["n"], case["k"], "root")
    asns = [(a[0], a[1], a[2]) if a[0] == "NEB" else (a[0], a[1], frozenset(a[2])) for a in case["assertions"]]
    if case.get("parsed"):
        return judge_parsed(case["n"], asns, case["flags"], case["winner"])
    if case.get("printed"):
        return judge_printed(case["n"], asns, case["flags"], case["winner"])
    v = judge(case["n"], case["root"], asns, case["flags"], case.get("int_ids", False))[0]
    return [(k + "|repeated-assertion", w) for k, w in v] if case.get("repeated") else v
