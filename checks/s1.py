"""
State space S1: the draw-prefix trie.

A state is a prefix (x_1..x_n) of observations on the dyadic grid G_k = {u*i/k : i=0..k};
a transition draws one more grid value.  At every node the real NonnegMean methods are
called on a fresh object.  Shared by C01, C05, C11, C12, C13 (and C16 for first-crossing).
"""
import itertools
import math
import warnings
from fractions import Fraction as F

import numpy as np

from shangrla.core.NonnegMean import NonnegMean

TESTS = {
    "alpha_mart": NonnegMean.alpha_mart,
    "betting_mart": NonnegMean.betting_mart,
    "kaplan_kolmogorov": NonnegMean.kaplan_kolmogorov,
    "kaplan_markov": NonnegMean.kaplan_markov,
    "kaplan_wald": NonnegMean.kaplan_wald,
    "wald_sprt": NonnegMean.wald_sprt,
}
ESTIMS = {
    None: None,
    "fixed_alternative_mean": NonnegMean.fixed_alternative_mean,
    "shrink_trunc": NonnegMean.shrink_trunc,
    "optimal_comparison": NonnegMean.optimal_comparison,
}
BETS = {None: None, "fixed_bet": NonnegMean.fixed_bet, "agrapa": NonnegMean.agrapa}


def fr(s):
    return s if isinstance(s, F) else F(s)


def make(cfg):
    """fresh NonnegMean for a configuration dict"""
    kw = {k: float(fr(v)) if isinstance(v, str) else v for k, v in cfg.get("kw", {}).items()}
    N = cfg["N"] if cfg["N"] is not None else float("inf")  # an infinity of its own (not the object numpy.inf), as read from a file or computed
    return NonnegMean(
        test=TESTS[cfg["test"]],
        estim=ESTIMS[cfg.get("estim")],
        bet=BETS[cfg.get("bet")],
        u=float(fr(cfg["u"])),
        N=N,
        t=float(fr(cfg["t"])),
        random_order=(np.bool_(cfg.get("ro", True)) if cfg["N"] is not None else cfg.get("ro", True)),  # finite N: the flag as a numpy boolean
        **kw,
    )


def grid(cfg):
    if cfg.get("vals"):
        return [fr(v) for v in cfg["vals"]]
    u = fr(cfg["u"])
    k = cfg["k"]
    return [u * i / k for i in range(k + 1)]


def depth(cfg):
    if cfg.get("D"):
        return cfg["D"]
    return cfg["N"] if cfg["N"] is not None else cfg["H"]


def nd_configs(tier):
    """non-dyadic value alphabets with long runs of one value (rounding in running means / variances); used where the
    oracle needs no exact arithmetic (C11, C13)"""
    out = []
    D = 8 if tier == "quick" else 11
    worlds = [("1", ["0.1", "0.7"]), ("1.0101010101010102", ["0", "0.5050505050505051"]), ("1", ["0.3", "1"])]
    meths = [("alpha_mart", "shrink_trunc", None, {}), ("alpha_mart", "shrink_trunc", None, {"eta": "0.75", "f": 1, "d": 10}),
             ("betting_mart", None, "agrapa", {"lam": "0.5"}), ("alpha_mart", None, None, {"eta": "0.75"})]
    for u, vals in worlds:
        for N, H in ((D + 3, None), (None, D)):
            for test, estim, bet, kw in meths:
                out.append({"test": test, "estim": estim, "bet": bet, "kw": kw, "u": u, "t": "1/2", "N": N, "H": H, "k": len(vals) - 1,
                            "vals": vals, "D": D, "ro": True})
    return out


def tolist(a, n):
    a = np.asarray(a, dtype=float)
    if a.ndim == 0:
        a = np.full(n, float(a))
    return [float(v) for v in a]


def observe(cfg, xs):
    """run the real code on one prefix; xs = list of Fractions (exact dyadics)"""
    n = len(xs)
    x = np.array([float(v) for v in xs], dtype=float)
    obs = {"p": None, "hist": None, "eta": None, "lam": None, "exc": None, "mutated": False, "stateful": False, "int_differs": False, "u_late_differs": False, "ro_late_differs": False}
    with warnings.catch_warnings():
        warnings.simplefilter("ignore")
        try:
            nm = make(cfg)
            xin = x.copy()  # the auditor's own array: a test must not change the data it is shown
            p, h = nm.test(xin)
            obs["p"] = float(p)
            obs["hist"] = [float(v) for v in np.asarray(h, dtype=float).ravel()]
            obs["mutated"] = not np.array_equal(xin, x)
            # the same instance asked again (an Assertion keeps its test object from round to round): nothing may be
            # remembered from the first evaluation
            p2, h2 = nm.test(x.copy())
            h2 = [float(v) for v in np.asarray(h2, dtype=float).ravel()]
            same = (float(p2) == obs["p"] or (p2 != p2 and obs["p"] != obs["p"])) and len(h2) == len(obs["hist"]) and all(
                a == b or (a != a and b != b) for a, b in zip(h2, obs["hist"]))
            obs["stateful"] = not same
            # ... nor from the evaluation of another sample (here: the same draws in reverse order, i.e. same length and total)
            if n >= 2 and any(a != b for a, b in zip(x, x[::-1])):
                nm3 = make(cfg)
                nm3.test(x[::-1].copy())
                p7, h7 = nm3.test(x.copy())
                h7 = [float(v) for v in np.asarray(h7, dtype=float).ravel()]
                if not ((float(p7) == obs["p"] or (p7 != p7 and obs["p"] != obs["p"])) and len(h7) == len(obs["hist"]) and all(
                        a == b or (a != a and b != b) for a, b in zip(h7, obs["hist"]))):
                    obs["stateful"] = True
            # the Audit code builds tests first and installs u later (test.u = ...): same answer required.  Only where the
            # constructor derives nothing else from u (an explicit eta, or an estimator/bet that reads u when called)
            if "eta" in cfg.get("kw", {}) or cfg.get("estim") in ("shrink_trunc", "optimal_comparison") or cfg["test"] not in ("alpha_mart", "wald_sprt"):
                c0 = dict(cfg, u="1" if fr(cfg["u"]) != 1 else "2")
                nm0 = make(c0)
                nm0.u = float(fr(cfg["u"]))
                p4, h4 = nm0.test(x.copy())
                h4 = [float(v) for v in np.asarray(h4, dtype=float).ravel()]
                obs["u_late_differs"] = not (feq(float(p4), obs["p"]) and len(h4) == len(obs["hist"]) and all(feq(a, b) for a, b in zip(h4, obs["hist"])))
            # the sample as a plain list (documented: "list" / "array-like"), and the population size as a numpy integer
            # (Contest.check_cards produces one and it is passed on as N): same answer required
            try:
                p8, h8 = make(cfg).test([float(v) for v in xs])
                h8 = [float(v) for v in np.asarray(h8, dtype=float).ravel()]
                same8 = feq(float(p8), obs["p"]) and len(h8) == len(obs["hist"]) and all(feq(a, b) for a, b in zip(h8, obs["hist"]))
                if cfg["N"] is not None and same8:
                    nmn = make(cfg)
                    nmn.N = np.int64(cfg["N"])
                    p9, h9 = nmn.test(x.copy())
                    h9 = [float(v) for v in np.asarray(h9, dtype=float).ravel()]
                    same8 = feq(float(p9), obs["p"]) and len(h9) == len(obs["hist"]) and all(feq(a, b) for a, b in zip(h9, obs["hist"]))
                    if not same8:
                        obs["arg_type"] = "population size given as numpy.int64: another answer"
                elif not same8:
                    obs["arg_type"] = "sample given as a list: another answer"
            except Exception as e:  # noqa
                obs["arg_type"] = f"sample given as a list / N as numpy.int64: {type(e).__name__}: {str(e)[:60]}"
            # the declaration "the sample is / is not in random order" may be changed on an existing test object (an audit
            # learns that the order of a batch was not random): the answer is that of an object built with the new value
            if "ro" in cfg and not (cfg["test"] == "wald_sprt" and cfg["N"] is not None):
                nmr = make(dict(cfg, ro=not cfg["ro"]))
                nmr.random_order = cfg["ro"]
                p6, h6 = nmr.test(x.copy())
                h6 = [float(v) for v in np.asarray(h6, dtype=float).ravel()]
                obs["ro_late_differs"] = not (feq(float(p6), obs["p"]) and len(h6) == len(obs["hist"]) and all(feq(a, b) for a, b in zip(h6, obs["hist"])))
            # u itself may be given as a Python int (u=1, u=2): same answer required (checked on the long samples, where an
            # integer power or product would have room to overflow)
            if cfg.get("paths") and fr(cfg["u"]).denominator == 1:
                nmi = make(cfg)
                nmi.u = int(fr(cfg["u"]))
                p5, h5 = nmi.test(x.copy())
                h5 = [float(v) for v in np.asarray(h5, dtype=float).ravel()]
                if not (feq(float(p5), obs["p"]) and len(h5) == len(obs["hist"]) and all(feq(a, b) for a, b in zip(h5, obs["hist"]))):
                    obs["int_differs"] = True
            # a sample whose values are whole numbers may arrive as an integer array (0/1 ballots): same answer required
            if all(v.denominator == 1 for v in xs):
                for dt in ((np.int8 if cfg.get("paths") else int), np.uint8):  # 0/1 ballots are often stored in small (signed or unsigned) integer types
                    p3, h3 = make(cfg).test(np.array([int(v) for v in xs], dtype=dt))
                    h3 = [float(v) for v in np.asarray(h3, dtype=float).ravel()]
                    obs["int_differs"] = obs["int_differs"] or not (feq(float(p3), obs["p"]) and len(h3) == len(obs["hist"]) and all(feq(a, b) for a, b in zip(h3, obs["hist"])))
        except Exception as e:  # noqa
            obs["exc"] = f"{type(e).__name__}: {str(e)[:80]}"
        if cfg["test"] == "alpha_mart":
            try:
                with np.errstate(all="ignore"):
                    obs["eta"] = tolist(make(cfg).estim(x.copy()), n)
            except Exception as e:  # noqa
                obs["eta"] = f"{type(e).__name__}: {str(e)[:80]}"
        if cfg["test"] == "betting_mart":
            try:
                with np.errstate(all="ignore"):
                    obs["lam"] = tolist(make(cfg).bet(x.copy()), n)
            except Exception as e:  # noqa
                obs["lam"] = f"{type(e).__name__}: {str(e)[:80]}"
    return obs


def long_paths(cfg):
    """the 'long thin' family: every prefix of length <= P over the grid followed by a constant run of one grid value"""
    k1 = len(grid(cfg))
    if cfg["paths"][0] == "tworun":  # a^i b^(L-i) for every i: one long run followed by another
        L = cfg["paths"][1]
        for a in range(k1):
            for b in range(k1):
                if a != b:
                    for i in range(1, L):
                        yield (a,) * i + (b,) * (L - i)
        return
    P, L = cfg["paths"]
    for n in range(0, P + 1):
        for pre in itertools.product(range(k1), repeat=n):
            for tail in range(k1):
                yield pre + (tail,) * (L - n)


def build_trie(cfg, rec=None):
    """dict: tuple of grid indices -> observation, for every prefix of length 1..depth"""
    g = grid(cfg)
    D = depth(cfg)
    k1 = len(g)
    trie = {}
    if cfg.get("paths"):
        for path in long_paths(cfg):
            for n in range(1, len(path) + 1):
                if path[:n] not in trie:
                    trie[path[:n]] = observe(cfg, [g[i] for i in path[:n]])
        if rec is not None:
            rec.state(len(trie))
            rec.trans(len(trie))
            rec.evals(len(trie) * 4)
            rec.trace(sum(1 for _ in long_paths(cfg)))
        return trie
    for n in range(1, D + 1):
        for idx in itertools.product(range(k1), repeat=n):
            trie[idx] = observe(cfg, [g[i] for i in idx])
    if rec is not None:
        rec.state(len(trie))
        rec.trans(len(trie))
        rec.evals(len(trie) * (3 if cfg["test"] in ("alpha_mart", "betting_mart") else 2))
        rec.trace(k1 ** D)
    return trie


def exact_mu(cfg, xs):
    """null conditional means mu_1..mu_n in Fractions (None entries never occur)"""
    t = fr(cfg["t"])
    N = cfg["N"]
    if N is None:
        return [t] * len(xs)
    mus, S = [], F(0)
    for i, x in enumerate(xs, start=1):
        mus.append((N * t - S) / (N - i + 1))
        S += x
    return mus


# ---------------------------------------------------------------- configuration menus
def _methods(u, t, finite, tier):
    """(test, estim, bet, kw, label) combinations for one (u,t,N-kind)"""
    u, t = fr(u), fr(t)
    out = []
    etas = [t + (u - t) / 4, (t + u) / 2]
    # ALPHA x fixed alternative: default constructor route, explicit with eta, explicit without eta
    out.append(("alpha_mart", None, None, {}))
    for e in etas:
        out.append(("alpha_mart", None, None, {"eta": str(e)}))
        out.append(("alpha_mart", "fixed_alternative_mean", None, {"eta": str(e)}))
    out.append(("alpha_mart", "fixed_alternative_mean", None, {}))
    # ALPHA x shrink-truncate
    st = [
        {},
        {"c": str((etas[1] - t) / 2), "d": 2, "f": 0, "minsd": 1e-6},
        {"c": "1/8", "d": 1, "f": 1, "minsd": 1e-6},
        {"c": "1/4", "d": 10, "f": "1/2", "minsd": "1/8"},
        {"c": "1/8", "d": "1/2", "f": 0, "minsd": 1e-6},  # a prior weight below one observation
    ]
    if tier == "thorough":
        st += [{"c": "1/64", "d": 100, "f": 10, "minsd": 1e-6}, {"c": "1/2", "d": 1, "f": 0, "minsd": "1/8"}]
    for e in etas[-1:] if tier == "quick" else etas:
        for s in st:
            out.append(("alpha_mart", "shrink_trunc", None, dict(s, eta=str(e))))
    out.append(("alpha_mart", "shrink_trunc", None, {}))
    # ALPHA x optimal comparison (overstatement bounds only)
    if u > 1:
        # the rate that puts the closed-form alternative just above t (a tenth of the way to u): inside [t, u), so neither
        # clipped to u nor (at first) lifted to the null mean
        g_ = 1 / (2 - 2 * u)
        near = 1 - (t + (u - t) / 10 - g_ + F(1, 2)) / (u * (1 - g_))
        for r in ([1e-4, 0.1, float(near)] if tier == "quick" else [1e-4, 1e-2, 0.1, 0.4, float(near)]):
            out.append(("alpha_mart", "optimal_comparison", None, {"rate_error_2": r}))
    # betting x fixed bet (lambda <= 1/u)
    for lam in [1 / (2 * u), 1 / u, min(F(1, 4), 1 / u)]:
        out.append(("betting_mart", None, "fixed_bet", {"lam": str(lam)}))
    out.append(("betting_mart", None, None, {"lam": str(1 / (2 * u))}))  # default bet route
    # betting x aGRAPA
    ag = [
        {"lam": str(1 / (2 * u))},
        {"lam": str(1 / (2 * u)), "c_grapa_0": "1/2", "c_grapa_max": 0.99, "c_grapa_grow": 0},
        {"lam": str(min(F(1, 4), 1 / u)), "c_grapa_0": 0.6, "c_grapa_max": 0.9, "c_grapa_grow": 2},
    ]
    for a in ag:
        out.append(("betting_mart", None, "agrapa", a))
    # Kaplan family and SPRT
    if finite:
        for g in ["0", "1/8", "1/2"]:
            out.append(("kaplan_kolmogorov", None, None, {"g": g}))
    else:
        for g in ["0", "1/8", "1"]:
            out.append(("kaplan_markov", None, None, {"g": g}))
        for g in ["0", "1/8", "1/2", "1"]:
            out.append(("kaplan_wald", None, None, {"g": g}))
    for e in etas:
        out.append(("wald_sprt", None, None, {"eta": str(e)}))
    # the SPRT documents its alternative as "eta in (0,u)": values at and below the null mean are in the documented range
    out.append(("wald_sprt", None, None, {"eta": str(t / 2)}))
    if tier == "thorough":
        out.append(("wald_sprt", None, None, {"eta": str(t)}))
    if tier == "thorough":
        out.append(("wald_sprt", None, None, {}))
    return out


def configs(tier, ro_values=(True,)):
    """list of configuration dicts (shards).  Quick ~ 100 small tries, thorough ~ 700 larger ones."""
    if tier == "quick":
        uts = [("1", "1/2"), ("5/4", "1/2"), ("3/4", "1/2")]
        shapes = [(5, None, 2), (None, 5, 2), (4, None, 4)]  # (N, H, k)
    else:
        uts = [("1", "1/2"), ("5/4", "1/2"), ("3/4", "1/2"), ("9/8", "1/2"), ("1", "1/4"), ("2", "1/2")]
        shapes = [(4, None, 4), (6, None, 4), (8, None, 2), (7, None, 2), (None, 8, 2), (None, 5, 4), (3, None, 8)]
    out = []
    for u, t in uts:
        for N, H, k in shapes:
            if tier == "quick" and k == 4 and (u, t) != ("1", "1/2"):
                continue
            for test, estim, bet, kw in _methods(u, t, N is not None, tier):
                for ro in ro_values:
                    if test == "wald_sprt" and N is not None and not ro:
                        continue  # refused by documented contract
                    out.append(
                        {"test": test, "estim": estim, "bet": bet, "kw": kw, "u": u, "t": t, "N": N, "H": H, "k": k, "ro": ro}
                    )
    return out


def long_configs(tier):
    """long samples (to length 24 / 40): short arbitrary prefix, then a constant run; populations of 40 / 64 or IID"""
    P, L, N = (2, 24, 40) if tier == "quick" else (2, 160, 200)
    out = []
    if tier == "thorough":  # two long runs, for a handful of methods
        for test, estim, bet, kw in (("betting_mart", None, "fixed_bet", {"lam": "1"}), ("betting_mart", None, "agrapa", {"lam": "1/2"}),
                                     ("alpha_mart", "shrink_trunc", None, {"eta": "3/4", "f": 1}), ("alpha_mart", None, None, {"eta": "3/4"}),
                                     ("kaplan_kolmogorov", None, None, {"g": "1/8"}), ("wald_sprt", None, None, {"eta": "3/4"})):
            out.append({"test": test, "estim": estim, "bet": bet, "kw": kw, "u": "1", "t": "1/2", "N": 150, "H": None, "k": 2, "D": 120,
                        "paths": ["tworun", 120], "ro": True})
        for test, estim, bet, kw in (("betting_mart", None, "fixed_bet", {"lam": "1"}), ("kaplan_markov", None, None, {"g": "1/8"}), ("kaplan_wald", None, None, {"g": "1/8"})):
            out.append({"test": test, "estim": estim, "bet": bet, "kw": kw, "u": "1", "t": "1/2", "N": None, "H": 120, "k": 2, "D": 120,
                        "paths": ["tworun", 120], "ro": True})
    # a small null mean and no padding: one zero annihilates the Kaplan statistics for good, and a handful of later large
    # values is all it would take to bring an improperly kept product back
    for test in ("kaplan_markov", "kaplan_wald"):
        out.append({"test": test, "estim": None, "bet": None, "kw": {"g": 0}, "u": "1", "t": "1/128", "N": None, "H": L, "k": 2, "D": L, "paths": [1, L], "ro": True})
    for u, t in ((("1", "1/2"), ("5/4", "1/2")) if tier == "quick" else (("1", "1/2"), ("5/4", "1/2"), ("2", "1/2"))):
        for finite in (True, False):
            for test, estim, bet, kw in _methods(u, t, finite, "quick"):
                if test == "alpha_mart" and estim is None and kw:
                    continue  # one default-route fixed alternative is enough here
                out.append({"test": test, "estim": estim, "bet": bet, "kw": kw, "u": u, "t": t, "N": N if finite else None,
                            "H": None if finite else L, "k": 2, "D": L, "paths": [P, L], "ro": True})
    return out


def vlong_configs(tier):
    """thorough tier: IID samples of more than a thousand draws (one arbitrary first draw, then a constant run), and a
    small hypothesised mean; products of a thousand factors leave the floating-point range in both directions"""
    if tier == "quick":
        return []
    out = []
    for test, estim, bet, kw, t, L in (("kaplan_wald", None, None, {"g": "1/8"}, "1/2", 1300), ("kaplan_markov", None, None, {"g": "1/8"}, "1/2", 1300),
                                       ("kaplan_markov", None, None, {"g": "1/8"}, "1/50", 400), ("kaplan_wald", None, None, {"g": "1/8"}, "1/50", 400),
                                       ("betting_mart", None, "fixed_bet", {"lam": "1"}, "1/2", 1300), ("alpha_mart", None, None, {"eta": "3/4"}, "1/2", 1300)):
        out.append({"test": test, "estim": estim, "bet": bet, "kw": kw, "u": "1", "t": t, "N": None, "H": L, "k": 2, "D": L, "paths": [1, L], "ro": True})
    return out


def near_tie_configs(tier):
    """N = 4, t = 1/2: values 0, 1/2, 1 and 1 - 2^-18, so that running totals come within 2e-6 (relative) of N t without
    equalling it: a tie rule with any tolerance coarser than rounding error changes these histories"""
    out = []
    for test, estim, bet, kw in (("alpha_mart", None, None, {"eta": "3/4"}), ("alpha_mart", "shrink_trunc", None, {"eta": "3/4"}), ("betting_mart", None, "fixed_bet", {"lam": "1/2"}),
                                 ("kaplan_kolmogorov", None, None, {"g": 0}), ("wald_sprt", None, None, {"eta": "3/4"})):
        out.append({"test": test, "estim": estim, "bet": bet, "kw": kw, "u": "1", "t": "1/2", "N": 4, "H": None, "k": 3, "D": 4,
                    "vals": ["0", "1/2", "262143/262144", "1"], "ro": True})
    return out


def ulp_tie_configs(tier):
    """N = 8, t = 1/4 (null total 2): values 0, 1 and 9, 11, 13 units of 2^-51, so that after 1, 1 the running total sits 18 to 26
    machine epsilons above the null total.  A total that close is an excess or a tie according to a rounding allowance
    that may depend on the number of draws summed so far, but not on how many draws FOLLOW: samples of 4, 5, 6 draws
    with the same beginning must tell the same story about it (used by C05 only, whose oracle is differential)"""
    out = []
    for test, estim, bet, kw in (("alpha_mart", None, None, {"eta": "1/2"}), ("alpha_mart", "shrink_trunc", None, {"eta": "1/2"}), ("betting_mart", None, "fixed_bet", {"lam": "1"}),
                                 ("betting_mart", None, "agrapa", {"lam": "1"}), ("kaplan_kolmogorov", None, None, {"g": 0}), ("wald_sprt", None, None, {"eta": "1/2"})):
        out.append({"test": test, "estim": estim, "bet": bet, "kw": kw, "u": "1", "t": "1/4", "N": 8, "H": None, "k": 3 if tier == "quick" else 4, "D": 6 if tier == "quick" else 7,
                    "vals": ["0", "1", "11/2251799813685248", "13/2251799813685248"] + (["9/2251799813685248"] if tier != "quick" else []), "ro": True})
    return out


def bign_configs(tier):
    """short samples from a LARGE population (N = 1000, 100000): the first few draws are < 1% of the population"""
    out = []
    for N in (1000, 100000):
        for u, t in (("1", "1/2"), ("17/32", "1/2")):
            for test, estim, bet, kw in (("alpha_mart", "fixed_alternative_mean", None, {}), ("alpha_mart", None, None, {"eta": str(fr(u) - fr("1/256"))}),
                                         ("alpha_mart", "shrink_trunc", None, {}), ("alpha_mart", "shrink_trunc", None, {"eta": str(fr(u) - fr("1/256")), "d": 2}),
                                         ("betting_mart", None, "agrapa", {"lam": "1/2"}), ("wald_sprt", None, None, {"eta": str(fr(u) - fr("1/256"))})):
                out.append({"test": test, "estim": estim, "bet": bet, "kw": kw, "u": u, "t": t, "N": N, "H": None, "k": 2, "D": 5 if tier == "quick" else 7, "ro": True})
    # a million cards and an alternative two millionths below the bound: one draw of 0 lifts the updated alternative above u
    # by less than a millionth (clipping must be exact, not "up to a tolerance")
    for test, estim, kw in (("alpha_mart", "fixed_alternative_mean", {"eta": "2097151/2097152"}), ("alpha_mart", None, {"eta": "2097151/2097152"}),
                            ("wald_sprt", None, {"eta": "2097151/2097152"})):
        out.append({"test": test, "estim": estim, "bet": None, "kw": kw, "u": "1", "t": "1/2", "N": 10 ** 6, "H": None, "k": 2, "D": 5 if tier == "quick" else 7, "ro": True})
    return out


def label(cfg):
    return (
        f"{cfg['test']}/{cfg.get('estim')}/{cfg.get('bet')} u={cfg['u']} t={cfg['t']} N={cfg['N']} "
        f"H={cfg['H']} k={cfg['k']} ro={cfg.get('ro', True)} kw={cfg['kw']}" + (f" vals={cfg['vals']}" if cfg.get("vals") else "") + (f" long-paths={cfg['paths']}" if cfg.get("paths") else "")
    )


def method_key(cfg):
    """coarse identity of the code path, used in finding keys"""
    e = cfg.get("estim") or ("fixed_alternative_mean(default)" if cfg["test"] == "alpha_mart" else None)
    b = cfg.get("bet") or ("fixed_bet(default)" if cfg["test"] == "betting_mart" else None)
    part = e if cfg["test"] == "alpha_mart" else (b if cfg["test"] == "betting_mart" else None)
    return cfg["test"] + (f"+{part}" if part else "")


def feq(a, b, rel=1e-9, abs_=1e-12):
    if a == b:
        return True
    if a != a or b != b:
        return (a != a) and (b != b)
    if math.isinf(a) or math.isinf(b):
        return False
    return abs(a - b) <= max(abs_, rel * max(abs(a), abs(b)))
