"""
State space S2 (ranked ballots): the ballot-profile lattice for the RAIRE generator.

A state is a multiset of ballots (partial rankings, blank, or 'card lacks the contest'); a transition
adds one ballot.  Every state is executed on the real compute_raire_assertions for every reported
winner and every shipped difficulty function (and, for C15, every search hint).
Shared by C04 and C15 (and the re-application clause of C14).
"""
import io
import itertools
from fractions import Fraction as F

from shangrla.raire import raire_utils as RU
from shangrla.raire.raire import compute_raire_assertions
from shangrla.raire.sample_estimator import bp_estimate, cp_estimate

from vmc.ref import raire as R

# candidate identifiers: distinct strings, some of which are substrings / prefixes of others (as numeric ids are)
NAMES = ["1", "12", "1 2", "21", "121", "3", "31"]  # overlapping identifiers; "1 2" has a blank inside (it becomes "12" if blanks are dropped)
LETTERS = "ABCDEFG"
CON = "con1"
FUNCS = {"bp": bp_estimate, "cp": cp_estimate, "neg": (lambda winner, loser, other, total: -(winner - loser))}


class Parsed(str):
    """the reported winner's name as a parser delivers it: equal to the entry of the candidate list, not the same object"""


def build_inputs(n, profile_idx, winner, hint=None, reverse=False):
    """fresh real inputs: (Contest, cvrs dict)"""
    alpha = list(R.rankings(n)) + [None]
    cvrs = {}
    items = list(enumerate(profile_idx))
    if reverse:
        items = items[::-1]
    tot = 0
    for i, a in items:
        b = alpha[a]
        if b is None:
            cvrs[f"b{i}"] = {"other": {"X": 0}}
        else:
            cvrs[f"b{i}"] = {CON: {NAMES[c]: r for r, c in enumerate(b)}}
            tot += 1
    order = [NAMES[c] for c in hint] if hint is not None else []
    con = RU.Contest(CON, [NAMES[c] for c in range(n)], Parsed(NAMES[winner]), tot, order=order)
    return con, cvrs


def call_raire(n, profile_idx, winner, kind, hint=None, reverse=False, agap=None):
    """run the real generator; returns list of normalised assertions or ('exc', msg)"""
    con, cvrs = build_inputs(n, profile_idx, winner, hint, reverse)
    try:
        kw = {} if agap is None else {"agap": agap}
        res = compute_raire_assertions(con, cvrs, Parsed(NAMES[winner]), FUNCS[kind], False, stream=io.StringIO(), **kw)
    except Exception as e:  # noqa
        return ("exc", f"{type(e).__name__}: {str(e)[:80]}"), None, None
    return normalise(res), res, cvrs


def normalise(res):
    out = []
    if not isinstance(res, list):
        return ("notalist", repr(res)[:60])
    for a in res:
        if a is None:
            out.append(None)
        elif isinstance(a, RU.NEBAssertion):
            out.append(("NEB", NAMES.index(a.winner), NAMES.index(a.loser), int(a.votes_for_winner), int(a.votes_for_loser), float(a.difficulty)))
        elif isinstance(a, RU.NENAssertion):
            out.append(("NEN", NAMES.index(a.winner), NAMES.index(a.loser), frozenset(NAMES.index(c) for c in a.eliminated),
                        int(a.votes_for_winner), int(a.votes_for_loser), float(a.difficulty)))
        else:
            out.append(("unknown", repr(a)[:40]))
    return out


def akey(a):
    return (a[0], a[1], a[2]) if a[0] == "NEB" else (a[0], a[1], a[2], a[3])


def profiles(n, B, first=None):
    """all multisets of exactly B alphabet indices (canonical = sorted); optionally with a fixed first element"""
    A = len(R.rankings(n)) + 1
    if B == 0:
        if first is None:
            yield ()
        return
    if first is None:
        yield from itertools.combinations_with_replacement(range(A), B)
    else:
        for rest in itertools.combinations_with_replacement(range(first, A), B - 1):
            yield (first,) + rest


def shards(plan):
    """plan: list of (n, maxB); shard = (n, B, first index)"""
    out = []
    for n, maxB in plan:
        A = len(R.rankings(n)) + 1
        out.append((n, 0, None))
        for B in range(1, maxB + 1):
            for first in range(A):
                out.append((n, B, first))
    return out


def show_profile(n, profile_idx):
    alpha = list(R.rankings(n)) + [None]
    return ["<no contest>" if alpha[a] is None else ">".join(NAMES[c] for c in alpha[a]) or "<blank>" for a in profile_idx]


def show_assertion(a):
    if a is None:
        return None
    if a[0] == "NEB":
        return f"NEB {NAMES[a[1]]}>{NAMES[a[2]]} ({a[3]} v {a[4]}) diff {a[5]:.6g}"
    if a[0] == "NEN":
        return f"NEN {NAMES[a[1]]}>{NAMES[a[2]]} elim {{{','.join(NAMES[c] for c in sorted(a[3]))}}} ({a[4]} v {a[5]}) diff {a[6]:.6g}"
    return str(a)


# ---------------------------------------------------------------- weighted families
# A second family of profiles reaches larger and more varied tallies than multisets of <= B ballots can:
# k distinct ballot types, each cast w times.  FAMILIES[name] = (n, type alphabet, max distinct types, weights).
def _idx(n, names):
    al = list(R.rankings(n))
    out = []
    for s in names:
        r = tuple(LETTERS.index(c) for c in s.split(">")) if s else ()
        out.append(al.index(r))
    return sorted(set(out))


# 5-candidate alphabet: 20 rankings of length 2-3 among which deep (length 4-5) branches of the RAIRE search
# tree carry the deciding assertion for some weightings
HARD5 = ["B>C>A", "C>B", "C>E>D", "D>E>B", "E>D", "A>D>C", "D>C", "D>C>A", "E>A>C",
         "A>E>C", "C>D>E", "D>A", "E>B>D", "B>A>E", "C>D>B", "D>E", "E>C>A", "A>B", "B>E", "C>A>B"]


def families(tier):
    if tier == "quick":
        n4 = [i for i, r in enumerate(R.rankings(4)) if 1 <= len(r) <= 3]  # 40 rankings of length 1-3
        fam = {"n4-3types": (4, n4, 3, (1, 2)), "n5-hard12": (5, _idx(5, HARD5[:12]), 5, (2, 3))}
    else:
        n4 = list(range(len(R.rankings(4))))  # every partial ranking of 4 candidates (blank included)
        fam = {"n4-3types": (4, n4, 3, (1, 2)), "n5-hard20": (5, _idx(5, HARD5), 5, (2, 3))}
        fam["n4-4types-short"] = (4, [i for i, r in enumerate(R.rankings(4)) if 1 <= len(r) <= 2], 4, (1, 2, 3))
    # three candidates, tens of ballots per type: margins beyond 10 (a search bound initialised to a small constant would bite)
    r3_ = R.rankings(3)
    fam["n3-tens"] = (3, [i for i, r in enumerate(r3_) if len(r) >= 1], 3, (7, 39, 51))
    # thousands of single-choice ballots per candidate plus a few ballots that rank two or three: assertions for the same
    # branch whose margins differ by one or two votes in a few thousand (difficulties within 0.1% of each other)
    r3 = R.rankings(3)
    singles = [i for i, r in enumerate(r3) if len(r) == 1]
    longer = [i for i, r in enumerate(r3) if len(r) >= 2]
    if tier != "quick":  # each RAIRE run on several thousand ballots costs ~40 ms: thorough tier only
        fam["n3-near-equal"] = (3, longer, 2, (1, 2, 10), (singles, (1390, 1391, 4000)))
    return fam


def weighted_profiles(types, K, W, first, part=0, parts=1, base=None):
    """profiles whose smallest type is `first`: k <= K distinct types from `types`, weights from W;
    the enumeration is dealt round-robin into `parts` shards (load balance only).  With base = (base types, base
    weights) every assignment of base weights to the base types is added to each of them."""
    pos = types.index(first)
    rest = types[pos + 1:]
    bases = [()]
    if base is not None:
        bases = [tuple(t for t, w in zip(base[0], hw) for _ in range(w)) for hw in itertools.product(base[1], repeat=len(base[0]))]
    i = 0
    for k in range(1, K + 1):
        for others in itertools.combinations(rest, k - 1):
            ts = (first,) + others
            for ws in itertools.product(W, repeat=k):
                for b in bases:
                    i += 1
                    if i % parts != part:
                        continue
                    prof = list(b)
                    for t, w in zip(ts, ws):
                        prof += [t] * w
                    yield tuple(prof)


def weighted_shards(tier, only_full_k=None):
    out = []
    for name, f in families(tier).items():
        n, types = f[0], f[1]
        for j, first in enumerate(types):
            parts = 16 if ((n >= 5 and j < len(types) // 2) or (len(f) > 4 and tier != "quick")) else (4 if j < len(types) // 3 else 1)
            for part in range(parts):
                out.append(("wt", name, first, part, parts))
    return out
