"""
State space S3: the card-population lattice for comparison / ONEAudit audits.

A card = (CVR content, manual record, pooling, CVR-is-phantom).  A state is a multiset of cards; a
transition adds one card.  Every state is pushed through the documented workflow on fresh real objects:
pool_contests -> add_pool_contests -> set_tally_pool_means -> set_margin_from_cvrs -> overstatement_assorter.
Shared by C03, C06, C08.
"""
import itertools
import warnings
from fractions import Fraction as F

import numpy as np

from shangrla.core.Audit import CVR, Assertion, Audit, Contest
from shangrla.core.NonnegMean import NonnegMean

from vmc.ref import assorters as RA

CID = "con"
CANDS = ["A", "B", "C"]
KINDS = ["plurality", "supermajority", "irv_neb", "irv_nen"]
SHARE = 2 / 3
SHARE_X = F(2, 3)
SM = {"supermajority": (2 / 3, F(2, 3)), "sm13": (1 / 3, F(1, 3)), "sm12": (1 / 2, F(1, 2)), "sm34": (3 / 4, F(3, 4))}

# vote contents per kind family
CONTENT_PLUR = {"win": {"A": True}, "lose": {"B": True}, "blank": {}, "over": {"A": True, "B": True}, "lacks": None}
CONTENT_IRV = {"win": {"A": 1, "B": 2, "C": 3}, "lose": {"B": 1, "A": 2}, "third": {"C": 1, "A": 2, "B": 3}, "blank": {}, "lacks": None}
POOLS = [None, "P", "Q", "R"]  # P and Q are pooled; R is a tally-pool label that is not pooled


def contents(kind):
    return CONTENT_IRV if kind.startswith("irv") else CONTENT_PLUR


def alphabet(kind, reduced=False):
    """list of card descriptors (cvr_content, mvr_content or 'unfindable', pool, phantom)"""
    cs = list(contents(kind))
    out = []
    pools = [None, "P"] if reduced else POOLS
    cvr_cs = [c for c in cs if not (reduced and c in ("over", "third"))]
    mvr_cs = [c for c in cs if not (reduced and c in ("over", "third", "blank"))] + ["unfindable"]
    for cc in cvr_cs:
        for mc in mvr_cs:
            for p in pools:
                out.append((cc, mc, p, False))
    for cc in (["lacks"] if reduced else ["blank", "lacks"]):
        for mc in mvr_cs:
            for p in (pools if reduced else pools + ["Pu"]):  # "Pu": a phantom labelled with the pooled batch P but not itself pooled
                out.append((cc, mc, p, True))
    return out


def build_cards(kind, cards, pooled=("P", "Q")):
    """fresh (cvr list, mvr list)"""
    cont = contents(kind)
    cvrs, mvrs = [], []
    for i, (cc, mc, p, ph) in enumerate(cards):
        votes = {"other": {"X": True}}
        if i % 2 == 0:  # a contest listed earlier that only every other card contains
            votes = {"early": {"X": True}, "other": {"X": True}}
        if cont[cc] is not None:
            votes[CID] = dict(cont[cc])
        if ph:
            votes = {CID: {}} if cc == "blank" else {}
        if i % 2 == 0:
            ph = np.bool_(ph)  # flags that come out of numpy / pandas are truthy or falsy without being the objects True / False
        if votes:
            cvrs.append(CVR(id=f"card{i}", votes=votes, phantom=ph, tally_pool=("P" if p == "Pu" else p), pool=(p in pooled), sample_num=i + 1))
        else:  # a record without any contest is built the short way: no votes argument (the constructor's own default)
            cvrs.append(CVR(id=f"card{i}", phantom=ph, tally_pool=("P" if p == "Pu" else p), pool=(p in pooled), sample_num=i + 1))
        cvrs[-1].sampled = True  # every card of a sample carries the flag consistent_sampling leaves on it (whichever contest it was drawn for)
        if mc == "unfindable":
            mvrs.append(CVR(id=f"card{i}", phantom=(np.True_ if i % 2 == 0 else True)))  # likewise without a votes argument
        else:
            mv = {"other": {"X": True}}
            if cont[mc] is not None:
                mv[CID] = dict(cont[mc])
            if cont[mc] is None and i % 2 == 1:  # a manual record showing no contest at all, built without a votes argument
                mvrs.append(CVR(id=f"card{i}", phantom=False))
            else:
                mvrs.append(CVR(id=f"card{i}", votes=mv, phantom=False))
    return cvrs, mvrs


def build_assertion(kind, audit_type, use_style, n_cards, test=None, estim=None, test_kwargs=None, keep_all=False, direct=False):
    scf = Contest.SOCIAL_CHOICE_FUNCTION.PLURALITY if kind == "plurality" else (
        Contest.SOCIAL_CHOICE_FUNCTION.SUPERMAJORITY if kind in SM else Contest.SOCIAL_CHOICE_FUNCTION.IRV)
    js = None
    if kind == "irv_neb":
        js = [{"winner": "A", "loser": "B", "assertion_type": "WINNER_ONLY", "already_eliminated": ""}]
    if kind == "irv_nen":
        js = [{"winner": "A", "loser": "B", "assertion_type": "IRV_ELIMINATION", "already_eliminated": ["C"]}]
    con = Contest.from_dict({"id": CID, "name": CID, "risk_limit": 0.05, "cards": max(1, n_cards), "choice_function": scf, "n_winners": 1,
                             "share_to_win": SM[kind][0] if kind in SM else None, "candidates": list(CANDS), "winner": ["A"],
                             "assertion_file": "x" if js else None, "assertion_json": js, "audit_type": audit_type,
                             "test": test or NonnegMean.alpha_mart, "estim": estim, "bet": None, "test_kwargs": test_kwargs or {}, "g": 0.1,
                             "use_style": (np.bool_(use_style) if n_cards % 2 == 1 else use_style), "sample_size": None, "sample_threshold": None, "tally": None})
    cons = {CID: con}
    Assertion.make_all_assertions(cons)
    if direct and kind in SM:  # the constructor called directly, its optional share_to_win left out: the contest's share rules
        con.assertions = Assertion.make_supermajority_assertion(con, winner="A", loser=["B", "C"], test=test or NonnegMean.alpha_mart, estim=estim,
                                                                test_kwargs=test_kwargs or {})
    name, asn = next(iter(con.assertions.items()))
    if not keep_all:
        con.assertions = {name: asn}  # one assertion under study (plurality builds "A v B" and "A v C")
    audit = Audit.from_dict({"strata": {"s": {"max_cards": max(1, n_cards), "use_style": use_style, "replacement": False}}})
    return con, asn, audit


def ref_assort(kind, vote):
    if kind == "plurality":
        return RA.plurality(vote, "A", "B")
    if kind in SM:
        return RA.supermajority(vote, "A", CANDS, SM[kind][1])
    if kind == "irv_neb":
        return RA.irv_neb(vote, "A", "B")
    return RA.irv_nen(vote, "A", "B", {"C"})


def ref_upper(kind):
    return 1 / (2 * SM[kind][1]) if kind in SM else F(1)


def workflow(kind, cards, use_style, audit_type=Audit.AUDIT_TYPE.ONEAUDIT, via_all=False, add_pool=True, keep_all=False, prior=False, direct=False):
    """the documented preparation on real objects; returns dict with everything the oracles need.
    prior=True: the same assertion objects were used before, on an earlier version of the population in which batch R
    was still pooled and the CVRs said something else (a non-initial state of the assorter)"""
    cvrs, mvrs = build_cards(kind, cards)
    con, asn, audit = build_assertion(kind, audit_type, use_style, len(cards), keep_all=keep_all, direct=direct)
    with warnings.catch_warnings():
        warnings.simplefilter("ignore")
        if prior:
            cs = [c for c in contents(kind) if c != "lacks"]
            shift = {c: cs[(k + 1) % len(cs)] for k, c in enumerate(cs)}
            old = [(shift.get(cc, cc), mc, p, ph) for cc, mc, p, ph in cards]
            old_cvrs, _ = build_cards(kind, old, pooled=("P", "Q", "R"))
            CVR.add_pool_contests(old_cvrs, CVR.pool_contests(old_cvrs))
            with np.errstate(all="ignore"):
                for a_ in con.assertions.values():
                    a_.assorter.set_tally_pool_means(cvr_list=old_cvrs, tally_pools=None, use_style=use_style)
                    if any(c.has_contest(CID) or not use_style for c in old_cvrs):
                        a_.set_margin_from_cvrs(audit, old_cvrs)
        if add_pool:  # the documented ONEAudit preparation; without it a pooled batch may hold cards of several styles
            tally_pools = CVR.pool_contests(cvrs)
            CVR.add_pool_contests(cvrs, tally_pools)
        for a_ in con.assertions.values():
            a_.assorter.set_tally_pool_means(cvr_list=cvrs, tally_pools=None, use_style=use_style)
        under = [i for i, c in enumerate(cvrs) if (c.has_contest(CID) or not use_style)]
        if not under:
            return {"under": [], "cvrs": cvrs, "mvrs": mvrs, "asn": asn, "con": con, "audit": audit}
        with np.errstate(all="ignore"):
            if via_all:  # the contest-level route sets every margin and installs u in every test; an earlier contest on other cards goes first
                early = Contest.from_dict({"id": "early", "name": "early", "risk_limit": 0.05, "cards": max(1, len(cards)),
                                           "choice_function": Contest.SOCIAL_CHOICE_FUNCTION.PLURALITY, "n_winners": 1, "candidates": ["X", "Y"],
                                           "winner": ["X"], "audit_type": audit_type, "test": NonnegMean.alpha_mart, "use_style": use_style})
                Assertion.make_all_assertions({"early": early})
                for a_ in early.assertions.values():
                    a_.assorter.set_tally_pool_means(cvr_list=cvrs, tally_pools=None, use_style=use_style)
                Assertion.set_all_margins_from_cvrs(audit, {"early": early, CID: con}, cvrs)
            else:
                asn.set_margin_from_cvrs(audit, cvrs)
    return {"under": under, "cvrs": cvrs, "mvrs": mvrs, "asn": asn, "con": con, "audit": audit}


def multisets(A, n, first=None):
    if first is None:
        yield from itertools.combinations_with_replacement(range(A), n)
    else:
        for rest in itertools.combinations_with_replacement(range(first, A), n - 1):
            yield (first,) + rest


def show(kind, cards):
    return [f"cvr={cc}{'(phantom)' if ph else ''} mvr={mc} pool={p}" for cc, mc, p, ph in cards]
