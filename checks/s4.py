"""Shared harness pieces for the sampling / escalation machine (S4): real CVR / Contest / Audit objects."""
import itertools

from shangrla.core.Audit import CVR, Assertion, Audit, Contest
from shangrla.core.NonnegMean import NonnegMean

CONTESTS = ["c1", "c2", "c3"]


def audit_obj(n_cards, use_style=True):
    return Audit.from_dict({"seed": 1, "sim_seed": 2, "quantile": 0.5, "error_rate_1": 0, "error_rate_2": 0, "reps": None,
                            "strata": {"s": {"max_cards": n_cards, "use_style": use_style, "replacement": False}}})


def make_cards(styles, nums, phantoms=None, votes_variant=0):
    """fresh CVR objects: styles[i] = tuple of contest ids, nums[i] = sample number"""
    out = []
    for i, (st, sn) in enumerate(zip(styles, nums)):
        votes = {}
        for c in st:
            if votes_variant == 0:
                votes[c] = {"A": True}
            else:
                votes[c] = [{"B": True}, {"A": True, "B": True}, {}][(i + len(c) + votes_variant) % 3]
        out.append(CVR(id=f"card{i}", votes=votes, phantom=bool(phantoms and phantoms[i]), sample_num=sn))
    return out


def make_contests(ids, sizes, cards_per=None, test=None, risk_limit=0.05):
    d = {}
    for c in ids:
        d[c] = {"name": c, "risk_limit": risk_limit, "cards": (cards_per or {}).get(c, 10), "choice_function": Contest.SOCIAL_CHOICE_FUNCTION.PLURALITY,
                "n_winners": 1, "candidates": ["A", "B"], "winner": ["A"], "audit_type": Audit.AUDIT_TYPE.CARD_COMPARISON,
                "test": test or NonnegMean.alpha_mart, "estim": NonnegMean.shrink_trunc, "bet": None, "test_kwargs": {}, "g": 0.1,
                "use_style": True, "sample_size": sizes.get(c, 0), "tally": None}  # no threshold given: the constructor's own default
    cons = Contest.from_dict_of_dicts(d)
    return cons


def style_menu(k):
    ids = CONTESTS[:k]
    out = []
    for r in range(k + 1):
        for s in itertools.combinations(ids, r):
            out.append(s)
    return out
