#!/venv/bin/python
"""selftest/run.py -- hand-computed values for the reference models in vmc/ref (the oracles of the checks).
Exit 0 if every value matches.  Run: PYTHONPATH=/repo:/verif /venv/bin/python selftest/run.py  (needs nothing from /repo
except that vmc.ref.raire imports numpy)."""
import sys
from fractions import Fraction as F

from vmc.ref import assorters as A
from vmc.ref import martingales as M
from vmc.ref import raire as R
from vmc.ref import sampling as S

bad = []


def eq(name, got, want):
    if got != want:
        bad.append(f"{name}: got {got!r}, expected {want!r}")


def vals(entries):
    return [e[1] for e in entries]


half = F(1, 2)
# ALPHA, IID, t = 1/2, u = 1, eta = 3/4, x = (1, 0):  T1 = (3/4)/(1/2) = 3/2 -> p = 2/3;  T2 = 3/2 * (1/4)/(1/2) = 3/4 -> p = 1
eq("alpha IID", vals(M.alpha(None, half, F(1), [F(1), F(0)], [F(3, 4), F(3, 4)])), [F(2, 3), F(1)])
# betting, lambda = 1/2: T1 = 1 + 1/2 * 1/2 = 5/4 -> 4/5;  T2 = 5/4 * (1 - 1/4) = 15/16 -> 1
eq("betting IID", vals(M.betting(None, half, F(1), [F(1), F(0)], [half, half])), [F(4, 5), F(1)])
# null means without replacement: N = 4, t = 1/2: mu = 2/4, (2-1)/3, (2-1-0)/2
eq("mu_seq", M.mu_seq(4, half, [F(1), F(0), F(1)]), [half, F(1, 3), half])
# ALPHA, N = 2, t = 1/2, x = (1, 1): after the first draw the total is 1 = N t, the second makes it 2 > N t: p = 0 at the end
h = M.alpha(2, half, F(1), [F(1), F(1)], [F(3, 4), F(3, 4)])
eq("alpha finite, first entry", h[0], ("eq", F(2, 3)))
eq("alpha finite, total exceeds N t", h[1][1] if h[1][0] == "eq" else h[1][1][0], F(0))
# Kaplan-Markov, t = 1/2, g = 0, x = (1, 1/4): products 2, 2 * 1/2 = 1 -> p = 1/2, 1
eq("kaplan_markov", vals(M.kaplan_markov(half, F(0), [F(1), F(1, 4)])), [half, F(1)])
# Kaplan-Wald, g = 1/2: factor (1/2 * x / t + 1/2): x = 1 -> 3/2 -> 2/3; x = 0 -> 1/2: 3/4 -> 1
eq("kaplan_wald", vals(M.kaplan_wald(half, half, [F(1), F(0)])), [F(2, 3), F(1)])
# consistent sampling: cards (sample number, contests); c1 wants 2 cards, c2 wants 1
cards = [(30, frozenset({"c1"})), (10, frozenset({"c2"})), (20, frozenset({"c1", "c2"})), (40, frozenset({"c1"}))]
sel, thr, per = S.consistent_sample(cards, {"c1": 2, "c2": 1})
eq("consistent sample selection", sel, [1, 2, 0])
eq("consistent sample thresholds", thr, {"c1": 30, "c2": 10})
eq("consistent sample per contest", per, {"c1": [2, 0], "c2": [1]})
# assorters
eq("plurality winner", A.plurality({"A": True}, "A", "B"), F(1))
eq("plurality overvote", A.plurality({"A": True, "B": True}, "A", "B"), half)
eq("supermajority valid winner vote, share 2/3", A.supermajority({"A": True}, "A", ["A", "B"], F(2, 3)), F(3, 4))
eq("supermajority overvote", A.supermajority({"A": True, "B": True}, "A", ["A", "B"], F(2, 3)), half)
eq("NEB: winner first", A.irv_neb({"A": 1, "B": 2}, "A", "B"), F(1))
eq("NEB: loser ranked, winner not first", A.irv_neb({"C": 1, "B": 2, "A": 3}, "A", "B"), F(0))
eq("NEN with C eliminated: ballot C>A>B counts for A", A.irv_nen({"C": 1, "A": 2, "B": 3}, "A", "B", {"C"}), F(1))
# RAIRE reference: 3 candidates, ballots 3x(0), 2x(1,0), 1x(2): IRV eliminates 2, then 1; winner 0
rk = R.rankings(3)
prof = [rk.index((0,))] * 3 + [rk.index((1, 0))] * 2 + [rk.index((2,))]
eq("irv order", tuple(R.irv_order(3, [rk[i] for i in prof])), (2, 1, 0))
ana = R.analyse(3, prof, 0, "cp")
eq("audit possible", ana["possible"], True)
# the order (.., 0, 1) [1 wins] needs an assertion "0 beats 1": NEB(0,1): first(0)=3 v mentions of 1 not after 0 = 2 -> margin 1/6 -> cp difficulty 6
eq("NEB(0,1) tallies", ana["true"][("NEB", 0, 1)][:2], (3, 2))
eq("cp difficulty", R.difficulty("cp", 3, 2, 6), F(6))
eq("bp difficulty", R.difficulty("bp", 3, 2, 6), F(30))
eq("NEN contradicts", R.contradicts(("NEN", 0, 1, frozenset({2})), (2, 0, 1)), True)
eq("NEB contradicts", R.contradicts(("NEB", 0, 1), (2, 0, 1)), True)
eq("NEB does not contradict", R.contradicts(("NEB", 0, 1), (2, 1, 0)), False)

if bad:
    print("\n".join(bad))
    sys.exit(1)
print("selftest: all reference values match")
