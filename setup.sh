#!/bin/bash
# Offline sanity check; nothing is built (pure Python harness, /repo is imported fresh by every check).
set -e
cd "$(dirname "${BASH_SOURCE[0]}")"
mkdir -p evidence replays
PY="${VMC_PYTHON:-/venv/bin/python}"
PYTHONPATH=/repo:$PWD PYTHONDONTWRITEBYTECODE=1 "$PY" -W ignore - <<'PYE'
import sys, os
import numpy, shangrla.core.Audit as A
assert os.path.realpath(A.__file__).startswith(os.path.realpath(os.environ.get("VMC_REPO", "/repo"))), A.__file__
import vmc.core, vmc.cli
print("setup ok: python", sys.version.split()[0], "numpy", numpy.__version__, "shangrla from", os.path.dirname(A.__file__))
PYE
command -v tlc >/dev/null && echo "tlc present" || echo "tlc missing (C10 thorough conformance pass will be skipped and reported)"
# the reference models (the oracles of the checks) against hand-computed values
PYTHONPATH=/repo:$PWD PYTHONDONTWRITEBYTECODE=1 "$PY" -W ignore selftest/run.py
