SPECIFICATION Spec
CONSTANT NCards = 4
INVARIANT TypeOK
INVARIANT EachContestHasItsFirstCards
PROPERTY Superset
PROPERTY AppendOnly
