---------------------------- MODULE Escalation ----------------------------
(* Second, independently written model of multi-round consistent sampling (property C10).
   Cards are 1..NCards and are numbered in sample-number order (card i has the i-th smallest
   sample number).  style[i] is the set of contests card i lists.  A round raises the sample
   size of one or both contests by one and then either REDRAWS the sample from scratch or CONTINUES
   from the cards already selected.  The model is written from the property text (each contest
   gets the first cards of its own order; escalation only ever extends the evidence), not from
   the code; checks/c10_tla.py replays every edge of the reachable graph on the implementation. *)
EXTENDS Naturals, FiniteSets, Sequences

CONSTANT NCards
Contests == {1, 2}
Cards == 1..NCards

VARIABLES style, size, sampled, thr
vars == <<style, size, sampled, thr>>

Listing(c) == {i \in Cards : c \in style[i]}

(* the k cards with the smallest numbers among those listing c *)
FirstK(c, k) == {i \in Listing(c) : Cardinality({j \in Listing(c) : j <= i}) <= k}

Max(S) == IF S = {} THEN 0 ELSE CHOOSE m \in S : \A x \in S : x <= m

Fresh(sz) == UNION {FirstK(c, sz[c]) : c \in Contests}
Thr(sz) == [c \in Contests |-> Max(FirstK(c, sz[c]))]

(* the cards whose observations feed contest c's assertions, as a set (their order is by number) *)
Data(c, smp, t) == {i \in smp : c \in style[i] /\ i <= t[c]}

Init == /\ style \in [Cards -> SUBSET Contests]
        /\ size = [c \in Contests |-> 0]
        /\ sampled = {}
        /\ thr = [c \in Contests |-> 0]

(* a round raises the sample size of every contest of a non-empty set K by one *)
Raise(K) == /\ K # {}
            /\ \A k \in K : size[k] < Cardinality(Listing(k))
            /\ size' = [c \in Contests |-> IF c \in K THEN size[c] + 1 ELSE size[c]]
            /\ UNCHANGED style

Redraw == \E K \in SUBSET Contests : /\ Raise(K)
                                      /\ sampled' = Fresh(size')
                                      /\ thr' = Thr(size')

Continue == \E K \in SUBSET Contests : /\ Raise(K)
                                        /\ sampled' = sampled \cup Fresh(size')
                                        /\ thr' = Thr(size')

Next == Redraw \/ Continue
Spec == Init /\ [][Next]_vars

TypeOK == /\ sampled \subseteq Cards
          /\ \A c \in Contests : size[c] \in 0..NCards /\ thr[c] \in 0..NCards

(* every contest has exactly the first size[c] cards of its own order inside its threshold *)
EachContestHasItsFirstCards == \A c \in Contests : Data(c, sampled, thr) = FirstK(c, size[c])

(* escalation only ever extends the evidence *)
Superset == [][sampled \subseteq sampled']_vars
AppendOnly == [][\A c \in Contests :
                   /\ Data(c, sampled, thr) \subseteq Data(c, sampled', thr')
                   /\ \A new \in Data(c, sampled', thr') \ Data(c, sampled, thr) :
                        \A old \in Data(c, sampled, thr) : old < new]_vars
=============================================================================
