#!/venv/bin/python
"""prints, per check, the bounds actually explored in each tier (from each module's bounds())"""
import importlib, json, os, sys
V = os.path.dirname(os.path.dirname(os.path.abspath(__file__)))
sys.path.insert(0, "/repo"); sys.path.insert(0, V)
import warnings; warnings.simplefilter("ignore")
for i in range(1, 21):
    m = importlib.import_module(f"checks.c{i:02d}")
    print(f"**C{i:02d}**")
    for tier in ("quick", "thorough"):
        b = m.bounds(tier)
        print(f"- {tier}: " + "; ".join(f"{k}: {json.dumps(v, default=str)}" for k, v in b.items()))
    print()
