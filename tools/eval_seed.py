#!/venv/bin/python
"""
Evaluate one seeded change: tools/eval_seed.py <patch.diff> [--demo demo.py] [--checks C01,C05|all] [--tier quick]

 1. makes a scratch worktree of /repo HEAD outside /repo and /verif, applies the patch there
 2. runs the repository's own test suite in it (must still pass)
 3. runs the demonstration against the patched tree (must exit non-zero) and against /repo (must exit 0)
 4. runs the requested checks with VMC_REPO pointing at the patched tree and reports which raise a VIOLATION
 5. removes the worktree
Prints one JSON object.
"""
import argparse
import json
import os
import re
import shutil
import subprocess
import sys
import tempfile

VERIF = os.path.dirname(os.path.dirname(os.path.abspath(__file__)))
ALL = [f"C{i:02d}" for i in range(1, 21)]


def sh(cmd, **kw):
    return subprocess.run(cmd, shell=True, capture_output=True, text=True, **kw)


def main():
    ap = argparse.ArgumentParser()
    ap.add_argument("patch")
    ap.add_argument("--demo")
    ap.add_argument("--checks", default="all")
    ap.add_argument("--tier", default="quick")
    ap.add_argument("--skip-tests", action="store_true")
    a = ap.parse_args()
    wt = tempfile.mkdtemp(prefix="vmc-eval-", dir="/tmp")
    os.rmdir(wt)
    res = {"patch": a.patch}
    try:
        r = sh(f"git -C /repo worktree add -q --detach {wt} HEAD")
        assert r.returncode == 0, r.stderr
        r = sh(f"git -C {wt} apply {os.path.abspath(a.patch)}")
        res["applies"] = r.returncode == 0
        if r.returncode != 0:
            res["apply_error"] = r.stderr[-300:]
            print(json.dumps(res, indent=1))
            return
        env = dict(os.environ, PYTHONPATH=wt, PYTHONDONTWRITEBYTECODE="1")
        if not a.skip_tests:
            r = sh(f"cd {wt} && /venv/bin/python -m pytest -q -p no:cacheprovider tests/ 2>&1 | tail -3", env=env)
            m = re.search(r"(\d+) passed", r.stdout)
            res["tests_passed"] = int(m.group(1)) if m else 0
            res["tests_failed"] = bool(re.search(r"\d+ (failed|error)", r.stdout))
        if a.demo:
            r1 = sh(f"/venv/bin/python {os.path.abspath(a.demo)} {wt}", env=dict(os.environ, PYTHONDONTWRITEBYTECODE="1"))
            r0 = sh(f"/venv/bin/python {os.path.abspath(a.demo)} /repo", env=dict(os.environ, PYTHONDONTWRITEBYTECODE="1"))
            res["demo_patched_exit"] = r1.returncode
            res["demo_clean_exit"] = r0.returncode
            res["demo_patched_out"] = (r1.stdout + r1.stderr)[-300:]
        checks = ALL if a.checks == "all" else a.checks.split(",")
        res["caught_by"], res["missed_by"], res["keys"] = [], [], {}
        for c in checks:
            r = sh(f"cd {VERIF} && VMC_REPO={wt} ./check {c} --tier {a.tier} --no-evidence")
            viol = [l for l in r.stdout.splitlines() if l.startswith("VIOLATION")]
            keys = [l.strip()[:240] for l in r.stdout.splitlines() if l.strip().startswith("finding key=")]
            if r.returncode == 1 and viol:
                res["caught_by"].append(c)
                res["keys"][c] = keys[:4]
            elif r.returncode == 0:
                res["missed_by"].append(c)
            else:
                res.setdefault("errors", {})[c] = (r.stdout + r.stderr)[-400:]
    finally:
        sh(f"git -C /repo worktree remove --force {wt}")
        shutil.rmtree(wt, ignore_errors=True)
        sh("git -C /repo worktree prune")
    print(json.dumps(res, indent=1))


if __name__ == "__main__":
    main()
