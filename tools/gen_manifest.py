#!/venv/bin/python
"""Regenerates MANIFEST.json from the per-check metadata below (only checks whose module exists are claimed)."""
import json, os, sys
V = os.path.dirname(os.path.dirname(os.path.abspath(__file__)))
sys.path.insert(0, V)
META = json.load(open(os.path.join(V, "tools", "check_meta.json")))
props = [json.loads(l) for l in open(os.path.join(V, "properties.jsonl"))]
checks, na = [], []
for p in props:
    pid = p["id"]
    m = META.get(pid)
    if m and m.get("claimed") and os.path.exists(os.path.join(V, "checks", pid.lower() + ".py")):
        checks.append({
            "property_id": pid,
            "quick_cmd": f"./check {pid} --tier quick",
            "thorough_cmd": f"./check {pid} --tier thorough",
            "evidence_file": f"/verif/evidence/{pid}.json",
            "replay_cmd_template": f"./check {pid} --replay {{path}}",
            "engine": "vmc",
            "level_claimed": {"category": "model_checking", "text": m["text"], "design_ref": m["design_ref"]},
            "level_note": m["note"],
            "technique": m["technique"],
        })
    else:
        na.append({"property_id": pid, "reason": (m or {}).get("na_reason", "check not built yet; planned in DESIGN.md section 5")})
man = {
    "version": 1,
    "setup_cmd": "./setup.sh",
    "hooks": {
        "guard": "SHANGRLA_VERIF",
        "enable": "no source hooks: ./check exports SHANGRLA_VERIF=1 and PYTHONPATH=/repo and imports the working tree in a fresh interpreter; the only interposition (numpy RandomState, stdout, temp files) lives in the harness",
        "baseline_off_cmd": "cd /repo && env -u SHANGRLA_VERIF /venv/bin/python -m pytest -ra -q -p no:cacheprovider --timeout=900 --continue-on-collection-errors",
        "source_commits": [],
        "add_only": True,
    },
    "engines": [
        {"name": "vmc", "path": "/verif/vmc", "serves_properties": [c["property_id"] for c in checks],
         "kind_free_text": "hand-written explicit-state explorer (Python): exhaustive enumeration of input histories / operation sequences up to stated bounds, executed on the real code, compared with Fraction-arithmetic reference models; TLC second model with all-edges conformance replay for C10"},
    ],
    "checks": checks,
    "not_applicable": na,
    "notes": "All checks: ./check <ID> [--tier quick|thorough] [--replay FILE]; verdicts are independent of VERIF_SEED (the seed only selects which explored cases are written to coverage.samples). Known and fixed findings: /verif/known_findings.json.",
}
json.dump(man, open(os.path.join(V, "MANIFEST.json"), "w"), indent=1)
print(f"claimed={len(checks)} not_applicable={len(na)}")
