#!/venv/bin/python
"""tools/keep_seed.py <ID><A|B> : copy a confirmed seeded change from /tmp/out-<ID>/ into seeded/<ID>-<x>/ with meta.json"""
import json, os, shutil, sys, re
V = os.path.dirname(os.path.dirname(os.path.abspath(__file__)))
tag = sys.argv[1]
pid, x = tag[:3], tag[3]
wave = tag[4:] or "1"
srcwave = {"7": "8"}.get(wave, wave)
src = f"/tmp/out-{pid}" if wave == "1" else f"/tmp/out{srcwave}-{pid}"
ev = json.load(open(f"/tmp/eval/{tag}.json"))
assert ev["applies"] and ev.get("tests_passed") == 55 and not ev.get("tests_failed"), ev
assert ev["demo_patched_exit"] != 0 and ev["demo_clean_exit"] == 0, ev
dst = os.path.join(V, "seeded", f"{pid}-{x}" if wave == "1" else f"{pid}-{x}{wave}")
os.makedirs(dst, exist_ok=True)
shutil.copy(f"{src}/patch{x}.diff", f"{dst}/patch.diff")
shutil.copy(f"{src}/demo{x}.py", f"{dst}/demo.py")
notes = open(f"{src}/notes{x}.md").read()
open(f"{dst}/notes.md", "w").write(notes)
meta = {
    "id": os.path.basename(dst), "breaks_property": pid, "written_by": "independent sub-agent given only the property text and a scratch worktree",
    "needs_to_manifest": re.sub(r"\s+", " ", notes)[:600],
    "confirmed_by": "tools/eval_seed.py (scratch worktree of /repo HEAD): patch applies; repository test suite 55 passed; demo exits non-zero with the patch and 0 on /repo",
    "tests_passed_with_patch": ev["tests_passed"], "demo_exit_patched": ev["demo_patched_exit"], "demo_exit_clean": ev["demo_clean_exit"],
    "quick_checks_that_report_it": ev["caught_by"], "finding_keys": ev.get("keys", {}),
}
json.dump(meta, open(f"{dst}/meta.json", "w"), indent=1)
print("kept", dst, "caught by", ev["caught_by"])
