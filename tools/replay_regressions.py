#!/venv/bin/python
"""tools/replay_regressions.py [--repo PATH]: re-executes every replay kept under regressions/ (the minimal failing case of each
defect found after the fifth seeded wave, as written by the check that found it on the pre-fix tree) through the check's
run_case, without the explorer.  Exit 0 if none reproduces on the tree under test, 1 otherwise (one line per case)."""
import glob, json, os, subprocess, sys
V = os.path.dirname(os.path.dirname(os.path.abspath(__file__)))
repo = sys.argv[sys.argv.index("--repo") + 1] if "--repo" in sys.argv else "/repo"
bad = 0
for f in sorted(glob.glob(os.path.join(V, "regressions", "C*", "*.json"))):
    pid = os.path.basename(os.path.dirname(f))
    r = subprocess.run([os.path.join(V, "check"), pid, "--replay", f], capture_output=True, text=True, env=dict(os.environ, VMC_REPO=repo))
    key = json.load(open(f))["key"]
    if r.returncode == 0:
        print(f"ok       {pid} {key}")
    else:
        bad += 1
        print(f"REPRODUCES {pid} {key}  ({f})")
sys.exit(1 if bad else 0)
