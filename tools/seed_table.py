#!/venv/bin/python
"""prints the markdown table of seeded changes for DESIGN.md section 12 from seeded/*/meta.json and seeded/HISTORY.json"""
import json, os, glob
V = os.path.dirname(os.path.dirname(os.path.abspath(__file__)))
hist = json.load(open(os.path.join(V, "seeded", "HISTORY.json"))) if os.path.exists(os.path.join(V, "seeded", "HISTORY.json")) else {}
print("| seeded change | what it does (needs) | reported by (quick) | first run |")
print("|---|---|---|---|")
for d in sorted(glob.glob(os.path.join(V, "seeded", "C*"))):
    m = json.load(open(os.path.join(d, "meta.json")))
    sid = m["id"]
    one = hist.get(sid, {}).get("summary") or m["needs_to_manifest"][:160]
    first = hist.get(sid, {}).get("first_run", "caught")
    th = m.get("thorough_checks_that_report_it")
    rep = ", ".join(m["quick_checks_that_report_it"]) or ("thorough: " + ", ".join(th) if th else "**none**")
    print(f"| {sid} | {one} | {rep} | {first} |")
