"""
./check <ID> [--tier quick|thorough] [--replay FILE]

Runs one property check against the working tree in /repo (or $VMC_REPO), writes
evidence/<ID>.json, prints VIOLATION / KNOWN-FINDING lines, exits 0 or 1.
"""
import argparse
import hashlib
import importlib
import json
import os
import sys
import time
import warnings

VERIF = os.path.dirname(os.path.dirname(os.path.abspath(__file__)))
REPO = os.environ.get("VMC_REPO", "/repo")


def bind_repo():
    """import shangrla from the working tree, fresh, and prove it"""
    if sys.path[0] != REPO:
        sys.path.insert(0, REPO)
    warnings.simplefilter("ignore")
    import shangrla
    import shangrla.core.Audit  # noqa
    import shangrla.core.NonnegMean  # noqa

    src = os.path.realpath(os.path.dirname(shangrla.core.Audit.__file__))
    want = os.path.realpath(os.path.join(REPO, "shangrla", "core"))
    if src != want:
        print(f"HARNESS-ERROR: shangrla imported from {src}, expected {want}", file=sys.stderr)
        sys.exit(3)
    return shangrla


def load_known():
    p = os.path.join(VERIF, "known_findings.json")
    if not os.path.exists(p):
        return []
    with open(p) as f:
        return json.load(f).get("findings", [])


def main(argv=None):
    ap = argparse.ArgumentParser()
    ap.add_argument("id")
    ap.add_argument("--tier", default=os.environ.get("VERIF_TIER", "quick"))
    ap.add_argument("--replay", default=None)
    ap.add_argument("--no-evidence", action="store_true")
    a = ap.parse_args(argv)
    pid = a.id.upper()
    tier = a.tier if a.tier in ("quick", "thorough") else "quick"
    try:
        seed = int(os.environ.get("VERIF_SEED", "0"))
    except ValueError:
        seed = 0
    bind_repo()
    from vmc import core, evidence

    mod = importlib.import_module(f"checks.{pid.lower()}")

    if a.replay:
        with open(a.replay) as f:
            rp = json.load(f)
        case = rp["case"] if "case" in rp else rp
        try:
            got = mod.run_case(case)
        except Exception as ex:  # noqa
            got = [(rp.get("key", f"{pid}|replay-raised|{type(ex).__name__}"), f"replay raised {type(ex).__name__}: {str(ex)[:120]}")]
        print(json.dumps({"case": case, "violations": got}, indent=1, default=core.jdefault))
        if got:
            print(f"VIOLATION property={pid} replay={os.path.abspath(a.replay)}")
            return 1
        print(f"replay: no violation of {pid} on this tree")
        return 0

    t0 = time.time()
    rec = mod.explore(tier, seed)
    known = [k for k in load_known() if k.get("property") == pid and k.get("status") == "known"]
    known_keys = {k["key"]: k for k in known}

    rdir = os.path.join(VERIF, "replays", pid)
    if os.path.isdir(rdir):  # replays of earlier runs are stale
        for fn in os.listdir(rdir):
            if fn.endswith(".json"):
                os.unlink(os.path.join(rdir, fn))
    new_viol = 0
    lines = []
    for key in sorted(rec.viol):
        e = rec.viol[key]
        case = sorted(e["cases"], key=core.case_size)[0]
        # replay twice without the explorer; both must reproduce the same finding key
        if isinstance(case, dict) and "__crash__" in case:  # the exploration itself died: nothing to replay
            r1 = r2 = [(key, e["what"])]
        else:
            def _replay():
                try:
                    return mod.run_case(case)
                except Exception as ex:  # noqa  (a replay that raises is a reproduction of a crash, not a crash of the runner)
                    return [(key, f"replay raised {type(ex).__name__}: {str(ex)[:120]}")]
            r1 = _replay()
            r2 = _replay()
        k1 = sorted({k for k, _ in r1})
        k2 = sorted({k for k, _ in r2})
        reproduced = key in k1 and k1 == k2
        if key in known_keys:
            lines.append(f"KNOWN-FINDING: property={pid} {known_keys[key]['what']} [key={key} cases={e['count']}]")
            continue
        os.makedirs(rdir, exist_ok=True)
        sha = hashlib.sha1((key + core.canon_json(case)).encode()).hexdigest()[:12]
        path = os.path.join(rdir, f"{sha}.json")
        with open(path, "w") as f:
            json.dump(
                {
                    "property": pid,
                    "key": key,
                    "what": e["what"],
                    "cases_with_this_key": e["count"],
                    "case": core.clean(case),
                    "replay_reproduced_twice": reproduced,
                    "replay_observed": core.clean(r1),
                    "replay_cmd": f"./check {pid} --replay {path}",
                },
                f,
                indent=1,
                default=core.jdefault,
            )
        new_viol += 1
        lines.append(f"  finding key={key} cases={e['count']} :: {e['what']}")
        lines.append(f"VIOLATION property={pid} replay={path}")

    wall = time.time() - t0
    if not a.no_evidence:
        evidence.write(pid, tier, seed, rec, mod, wall, new_viol, len(rec.viol) - new_viol)
    print(
        f"[{pid}] tier={tier} seed={seed} states={rec.states} transitions={rec.transitions} "
        f"traces={rec.traces} evaluations={rec.evaluations} distinct_outcomes={len(rec.outcomes)} "
        f"violation_keys={len(rec.viol)} wall={wall:.1f}s digest={rec.digest:016x}"
    )
    if rec.vacuity:
        print(f"[{pid}] vacuity: " + " ".join(f"{k}={v}" for k, v in sorted(rec.vacuity.items())))
    for c in rec.capped:
        print(f"[{pid}] CAP: {c}")
    need = getattr(mod, "REQUIRE_VAC", [])
    miss = [n for n in need if rec.vacuity.get(n, 0) == 0]
    if miss:
        print(f"[{pid}] WARNING: non-vacuity counters at zero: {miss}")
    for ln in lines:
        print(ln)
    return 1 if new_viol else 0


if __name__ == "__main__":
    sys.exit(main())
