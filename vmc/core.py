"""
Explorer bookkeeping shared by all checks.

A check enumerates a finite space completely.  While it does so it feeds a `Rec`:
  states / transitions / traces / evaluations   -- measured counters
  outcome(obj)   -- a distinct, non-trivial observed outcome (hashed)
  vac(name)      -- non-vacuity counters
  sample(obj)    -- seed-selected written-out cases for the evidence file
  violate(key, what, case) -- a property violation with a finding key and a replayable case
  observe(obj)   -- folds every raw observation into an order-independent digest

`pmap` forks a pool once per check and merges the shard records deterministically
(in shard order), so verdicts and counters never depend on scheduling.
"""
import hashlib
import json
import math
import multiprocessing as mp
import os
import sys
import time
from collections import Counter

MAX_CASES_PER_KEY = 4
MAX_SAMPLES = 12


def jdefault(o):
    import fractions
    try:
        import numpy as np
    except Exception:  # pragma: no cover
        np = None
    if isinstance(o, fractions.Fraction):
        return f"{o.numerator}/{o.denominator}"
    if np is not None:
        if isinstance(o, np.integer):
            return int(o)
        if isinstance(o, np.floating):
            return float(o)
        if isinstance(o, np.bool_):
            return bool(o)
        if isinstance(o, np.ndarray):
            return o.tolist()
    if isinstance(o, (set, frozenset)):
        return sorted(o, key=repr)
    if isinstance(o, tuple):
        return list(o)
    return repr(o)


def clean(o):
    """plain-JSON form: numpy -> python, tuples -> lists, non-finite floats -> strings"""
    import fractions
    import numpy as np
    if isinstance(o, dict):
        return {str(k): clean(v) for k, v in o.items()}
    if isinstance(o, (list, tuple)):
        return [clean(v) for v in o]
    if isinstance(o, (set, frozenset)):
        return [clean(v) for v in sorted(o, key=repr)]
    if isinstance(o, np.ndarray):
        return [clean(v) for v in o.tolist()]
    if isinstance(o, (np.bool_, bool)):
        return bool(o)
    if isinstance(o, (np.integer,)):
        return int(o)
    if isinstance(o, (float, np.floating)):
        f = float(o)
        if f != f:
            return "NaN"
        if f in (float("inf"), float("-inf")):
            return "Infinity" if f > 0 else "-Infinity"
        return f
    if isinstance(o, fractions.Fraction):
        return f"{o.numerator}/{o.denominator}"
    if o is None or isinstance(o, (int, str)):
        return o
    return repr(o)


def canon_json(obj) -> str:
    return json.dumps(obj, sort_keys=True, default=jdefault, allow_nan=True)


def h64(obj) -> int:
    if not isinstance(obj, (bytes, str)):
        obj = canon_json(obj)
    if isinstance(obj, str):
        obj = obj.encode()
    return int.from_bytes(hashlib.blake2b(obj, digest_size=8).digest(), "big")


def case_size(case) -> int:
    return len(canon_json(case))


class Rec:
    def __init__(self, seed: int = 0):
        self.seed = seed
        self.states = 0
        self.transitions = 0
        self.traces = 0
        self.evaluations = 0
        self.outcomes = set()
        self.vacuity = Counter()
        self.samples = []  # list of (rank, obj)
        self.viol = {}  # key -> {"what":..., "count": n, "cases": [case,...]}
        self.digest = 0
        self.capped = []
        self.notes = {}

    # ---- counters
    def state(self, n=1):
        self.states += n

    def trans(self, n=1):
        self.transitions += n

    def trace(self, n=1):
        self.traces += n

    def evals(self, n=1):
        self.evaluations += n

    def outcome(self, obj):
        self.outcomes.add(obj if isinstance(obj, int) else h64(obj))

    def vac(self, name, n=1):
        self.vacuity[name] += n

    def observe(self, obj):
        """order-independent digest of every raw observation (sum mod 2^64 of hashes)"""
        self.digest = (self.digest + (obj if isinstance(obj, int) else h64(obj))) & 0xFFFFFFFFFFFFFFFF

    def sample(self, obj, force=False):
        """keep the MAX_SAMPLES cases with the smallest seed-keyed rank (seed only picks what is shown)"""
        r = h64(canon_json(obj) + f"|{self.seed}")
        if force:
            r = -1
        if len(self.samples) < MAX_SAMPLES:
            self.samples.append((r, obj))
            self.samples.sort(key=lambda t: t[0])
        elif r < self.samples[-1][0]:
            self.samples[-1] = (r, obj)
            self.samples.sort(key=lambda t: t[0])

    def want_sample(self, tag) -> bool:
        """cheap pre-filter so that checks do not build sample objects for every case"""
        return (h64(f"{tag}|{self.seed}") % 997) < 3 or len(self.samples) < 2

    def cap(self, what):
        self.capped.append(what)

    def violate(self, key, what, case):
        e = self.viol.get(key)
        if e is None:
            e = self.viol[key] = {"what": what, "count": 0, "cases": []}
        e["count"] += 1
        cs = e["cases"]
        cs.append(case)
        if len(cs) > MAX_CASES_PER_KEY:
            cs.sort(key=case_size)
            del cs[MAX_CASES_PER_KEY:]

    # ---- merge
    def merge(self, o: "Rec"):
        self.states += o.states
        self.transitions += o.transitions
        self.traces += o.traces
        self.evaluations += o.evaluations
        self.outcomes |= o.outcomes
        self.vacuity.update(o.vacuity)
        for r, s in o.samples:
            self.samples.append((r, s))
        self.samples.sort(key=lambda t: t[0])
        del self.samples[MAX_SAMPLES:]
        for k, e in o.viol.items():
            m = self.viol.get(k)
            if m is None:
                self.viol[k] = {"what": e["what"], "count": e["count"], "cases": list(e["cases"])}
            else:
                m["count"] += e["count"]
                m["cases"].extend(e["cases"])
                m["cases"].sort(key=case_size)
                del m["cases"][MAX_CASES_PER_KEY:]
        self.digest = (self.digest + o.digest) & 0xFFFFFFFFFFFFFFFF
        self.capped.extend(o.capped)
        for k, v in o.notes.items():
            if k not in self.notes:
                self.notes[k] = v
            elif isinstance(v, (int, float)) and isinstance(self.notes[k], (int, float)):
                self.notes[k] = max(self.notes[k], v)
        return self


def nprocs() -> int:
    try:
        n = len(os.sched_getaffinity(0))
    except Exception:
        n = os.cpu_count() or 1
    return max(1, min(16, n, int(os.environ.get("VMC_PROCS", "16"))))


_WORK = {}


def _guarded(f, shard, rec):
    """an exploration that dies is a finding about the tree under test (or the harness), never a silent pass"""
    try:
        f(shard, rec)
    except Exception as e:  # noqa
        import traceback

        tb = traceback.format_exc()
        rec.violate(f"{getattr(sys.modules.get(f.__module__), 'ID', '?')}|exploration-crashed|{type(e).__name__}",
                    f"exploring shard {str(shard)[:120]} raised {type(e).__name__}: {str(e)[:120]}",
                    {"__crash__": tb[-1500:], "shard": str(shard)[:300]})


def _call(i):
    f, shards, seed = _WORK["f"], _WORK["shards"], _WORK["seed"]
    rec = Rec(seed)
    _guarded(f, shards[i], rec)
    return i, rec


def pmap(func, shards, seed=0, progress=None) -> Rec:
    """run func(shard, rec) for every shard on a forked pool; merge in shard order"""
    shards = list(shards)
    total = Rec(seed)
    if not shards:
        return total
    n = min(nprocs(), len(shards))
    results = {}
    if n <= 1:
        for i, s in enumerate(shards):
            r = Rec(seed)
            _guarded(func, s, r)
            results[i] = r
    else:
        _WORK.update(f=func, shards=shards, seed=seed)
        ctx = mp.get_context("fork")
        with ctx.Pool(n) as pool:
            done = 0
            for i, r in pool.imap_unordered(_call, range(len(shards)), chunksize=1):
                results[i] = r
                done += 1
                if progress and os.environ.get("VMC_PROGRESS") and done % max(1, len(shards) // 10) == 0:
                    print(f"  [{progress}] shards {done}/{len(shards)}", file=sys.stderr, flush=True)
        _WORK.clear()
    for i in range(len(shards)):
        total.merge(results[i])
    return total


class Timer:
    def __init__(self):
        self.t0 = time.time()

    def s(self):
        return time.time() - self.t0


def isnan(x):
    try:
        return math.isnan(x)
    except Exception:
        return False
