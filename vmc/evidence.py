"""evidence/<ID>.json writer; validates the structure the schema requires for model_checking"""
import json
import os

from . import core

VERIF = os.path.dirname(os.path.dirname(os.path.abspath(__file__)))
SCHEMA = "/root/.vp/EVIDENCE.schema.json"


def structural_check(ev):
    assert isinstance(ev["property_id"], str)
    assert ev["tier"] in ("quick", "thorough")
    assert isinstance(ev["seed"], int)
    assert ev["level"] == "model_checking"
    c = ev["coverage"]
    for k in ("states", "transitions"):
        assert isinstance(c[k], int) and c[k] >= 1, k
    assert isinstance(c["traces_validated_against_impl"], int) and c["traces_validated_against_impl"] >= 0
    assert isinstance(c["samples"], list) and len(c["samples"]) >= 1
    assert isinstance(c["evaluations"], int) and c["evaluations"] >= 1
    assert isinstance(c["distinct_nontrivial"], int)
    assert isinstance(ev["wall_s"], (int, float))


def write(pid, tier, seed, rec, mod, wall, new_viol, known_viol):
    bounds = mod.bounds(tier) if hasattr(mod, "bounds") else {}
    cov = {
        "states": int(rec.states),
        "transitions": int(rec.transitions),
        "traces_validated_against_impl": int(rec.traces),
        "evaluations": int(rec.evaluations),
        "distinct_nontrivial": int(len(rec.outcomes)),
        "rule": getattr(mod, "RULE", ""),
        "samples": [core.clean(s) for _, s in rec.samples] or ["<no sample recorded>"],
        "exhaustive": not rec.capped,
        "bounds": bounds,
        "vacuity": dict(sorted(rec.vacuity.items())),
        "caps_hit": list(rec.capped),
        "observation_digest": f"{rec.digest:016x}",
        "violation_keys": {k: v["count"] for k, v in sorted(rec.viol.items())},
        "notes": core.clean(rec.notes),
    }
    ev = {
        "property_id": pid,
        "tier": tier,
        "seed": int(seed),
        "level": "model_checking",
        "coverage": cov,
        "assumptions": list(getattr(mod, "ASSUMPTIONS", [])),
        "wall_s": round(float(wall), 3),
        "violations": int(new_viol),
        "known_findings_matched": int(known_viol),
    }
    txt = json.dumps(ev, indent=1, default=core.jdefault, allow_nan=False)
    ev2 = json.loads(txt)
    structural_check(ev2)
    try:  # full schema validation when jsonschema is importable (tooling venv); structural check otherwise
        import jsonschema  # type: ignore

        with open(SCHEMA) as f:
            jsonschema.validate(ev2, json.load(f))
    except ImportError:
        pass
    except FileNotFoundError:
        pass
    os.makedirs(os.path.join(VERIF, "evidence"), exist_ok=True)
    p = os.path.join(VERIF, "evidence", f"{pid}.json")
    tmp = p + ".tmp"
    with open(tmp, "w") as f:
        f.write(txt + "\n")
    os.replace(tmp, p)
    return p
