"""
Reference assorters (SHANGRLA sections 2-3; RAIRE), exact rational arithmetic, no import of shangrla.

A vote in a contest is a dict candidate -> mark (plurality / super-majority: truthiness; IRV: rank, smaller = preferred).
None means the card does not contain the contest.
"""
from fractions import Fraction as F

HALF = F(1, 2)


def truthy(v):
    return bool(v)


def plurality(vote, w, l):
    if vote is None:
        return HALF
    return F(int(truthy(vote.get(w, False))) - int(truthy(vote.get(l, False))) + 1, 2)


def supermajority(vote, w, cands, share):
    """share: Fraction; valid = exactly one mark among cands"""
    if vote is None:
        return HALF
    marks = [c for c in cands if truthy(vote.get(c, False))]
    if len(marks) != 1:
        return HALF
    return (F(1) if marks[0] == w else F(0)) / (2 * share)


def ranking_of(vote):
    """candidates in preference order from a rank dict (falsy ranks = not ranked)"""
    if vote is None:
        return None
    return [c for c, r in sorted(((c, r) for c, r in vote.items() if truthy(r)), key=lambda cr: cr[1])]


def irv_neb(vote, w, l):
    r = ranking_of(vote)
    if r is None:
        return HALF
    wv = 1 if (r and r[0] == w) else 0
    lv = 1 if (l in r and (w not in r or r.index(l) < r.index(w))) else 0
    return F(wv - lv + 1, 2)


def irv_nen(vote, w, l, elim):
    r = ranking_of(vote)
    if r is None:
        return HALF
    rem = [c for c in r if c not in elim]
    f = rem[0] if rem else None
    return F((1 if f == w else 0) - (1 if f == l else 0) + 1, 2)


def upper_bound(kind, share=None):
    return 1 / (2 * share) if kind == "supermajority" else F(1)
