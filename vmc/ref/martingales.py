"""
Reference definitions of the test statistics, in exact rational arithmetic, written from the
published formulas (Stark 2022 ALPHA; Waudby-Smith & Ramdas betting; Kaplan's martingales; Wald's SPRT
generalised to bounded values and sampling without replacement).  No import of shangrla.

Each function returns a list with one entry per observation:
   ("eq", value)            the reported history entry must equal value (Fraction or float)
   ("any", [v1, v2, ...])   any of the listed values is acceptable
   ("skip", reason)         the definition says nothing here (0/0-type singular index)
"""
from fractions import Fraction as F

INF = float("inf")


def mu_seq(N, t, ys):
    """null conditional means of a population with mean t after the draws ys (finite N) or t (N None)"""
    if N is None:
        return [t] * len(ys)
    out, S = [], F(0)
    for i, y in enumerate(ys, start=1):
        out.append((N * t - S) / (N - i + 1))
        S += y
    return out


def pval(T):
    """min(1, 1/T) for T >= 0 or negative (literal), T may be INF"""
    if T == INF:
        return F(0)
    if T == 0:
        return F(1)
    v = 1 / T
    return v if v < 1 else F(1)


def _product_history(N, t, u, xs, factor, clamp_last):
    """common skeleton of ALPHA / betting / SPRT: regular indices form a prefix"""
    mus = mu_seq(N, t, xs)
    out, T = [], F(1)
    n = len(xs)
    S = F(0)
    broken = False  # a factor was undefined (NaN) or negative (eta/lambda out of range): C13's business
    for j, (x, m) in enumerate(zip(xs, mus)):
        last = j == n - 1
        S += x
        over = N is not None and S > N * t  # the observed total already exceeds what the null allows
        if m < 0:
            out.append(("eq", F(0)))
            continue
        if m > u:
            ent = ("eq", F(1))
        elif m == 0 or m == u:
            ent = ("skip", "mu in {0,u}: 0/0")
        elif broken:
            ent = ("skip", "undefined or negative factor earlier")
        else:
            f = factor(j, x, m)
            if f is None or f < 0:
                broken = True
                ent = ("skip", "undefined or negative factor")
            else:
                T = T * f
                ent = ("eq", pval(T))
        if over:
            if last and clamp_last:
                ent = ("eq", F(0))
            elif ent[0] == "eq":
                ent = ("any", [F(0), ent[1]])
            else:
                ent = ("skip", "total exceeds N t at an undefined index")
        out.append(ent)
    return out


def alpha(N, t, u, xs, etas, clamp_last=True):
    def factor(j, x, m):
        e = etas[j]
        if e is None:
            return None
        return (x * e / m + (u - x) * (u - e) / (u - m)) / u

    return _product_history(N, t, u, xs, factor, clamp_last)


def betting(N, t, u, xs, lams, clamp_last=True):
    def factor(j, x, m):
        l = lams[j]
        if l is None:
            return None
        return 1 + l * (x - m)

    return _product_history(N, t, u, xs, factor, clamp_last)


def sprt_etas(N, eta, xs, u, clip):
    if N is None:
        es = [eta] * len(xs)
    else:
        es, S = [], F(0)
        for i, x in enumerate(xs, start=1):
            es.append((N * eta - S) / (N - i + 1))
            S += x
    if clip:
        es = [min(u, max(F(0), e)) for e in es]
    return es


def sprt(N, t, u, xs, eta, clip):
    # an alternative at or below the null mean is no alternative to "mean <= t": it counts as the null mean itself
    # (factor 1); for eta > t this changes nothing, since (N eta - S) > (N t - S) at every draw
    es = [max(e, m) for e, m in zip(sprt_etas(N, eta, xs, u, clip), mu_seq(N, t, xs))]
    return alpha(N, t, u, xs, es, clamp_last=False)


def kaplan_kolmogorov(N, t, g, xs):
    ys = [x + g for x in xs]
    mus = mu_seq(N, t + g, ys)
    out, T = [], F(1)
    S = F(0)
    for y, m in zip(ys, mus):
        S += y
        over = S > N * (t + g)
        if m < 0 or (m == 0 and y > 0):
            out.append(("eq", F(0)))
        elif m == 0:
            out.append(("skip", "0/0"))
        else:
            T = T * y / m
            out.append(("any", [F(0), pval(T)]) if over else ("eq", pval(T)))
    return out


def kaplan_markov(t, g, xs):
    out, T = [], F(1)
    for x in xs:
        T = T * (x + g) / (t + g)
        out.append(("eq", pval(T)))
    return out


def kaplan_wald(t, g, xs):
    out, T = [], F(1)
    for x in xs:
        T = T * ((1 - g) * x / t + g)
        out.append(("eq", pval(T)))
    return out


def to_frac(v):
    """exact Fraction of a float; None for NaN / inf"""
    if v is None or v != v or v in (INF, -INF):
        return None
    return F(v)
