"""
Reference model for IRV assertions (RAIRE), written from the definitions in Blom, Stuckey, Teague
"RAIRE: Risk-limiting audits for IRV elections" -- brute force over all elimination orders.
No import of shangrla.

Candidates are 0..n-1.  A ballot is a tuple of distinct candidates in preference order (() = blank),
or None for a card that lacks the contest.  An elimination order pi lists candidates first-eliminated
first; pi[-1] is the winner.

Assertions:
  ("NEB", w, l)       w's first preferences exceed the ballots on which l appears and w does not precede l;
                      contradicts pi iff w is eliminated before l.
  ("NEN", w, l, E)    with exactly E eliminated, w's tally exceeds l's (E frozenset, w,l not in E);
                      contradicts pi iff the first |E| eliminated are E and the next eliminated is w.
"""
import itertools
from fractions import Fraction as F
from functools import lru_cache

import numpy as np


@lru_cache(None)
def rankings(n):
    """all partial rankings over n candidates, shortest first, blank included"""
    out = []
    for r in range(0, n + 1):
        for sub in itertools.permutations(range(n), r):
            out.append(tuple(sub))
    return tuple(out)


@lru_cache(None)
def orders(n):
    return tuple(itertools.permutations(range(n)))


@lru_cache(None)
def universe(n):
    U = []
    for w in range(n):
        for l in range(n):
            if w != l:
                U.append(("NEB", w, l))
    for w in range(n):
        for l in range(n):
            if w == l:
                continue
            rest = [c for c in range(n) if c not in (w, l)]
            for r in range(len(rest) + 1):
                for E in itertools.combinations(rest, r):
                    U.append(("NEN", w, l, frozenset(E)))
    return tuple(U)


def contradicts(a, pi):
    if a[0] == "NEB":
        return pi.index(a[1]) < pi.index(a[2])
    E = a[3]
    k = len(E)
    return set(pi[:k]) == set(E) and pi[k] == a[1]


def first_standing(ballot, E):
    for c in ballot:
        if c not in E:
            return c
    return None


def counts_for(a, ballot):
    """(counts for winner, counts for loser) of one ballot under assertion a"""
    if ballot is None:
        return 0, 0
    if a[0] == "NEB":
        w, l = a[1], a[2]
        cw = 1 if (len(ballot) > 0 and ballot[0] == w) else 0
        if l in ballot and (w not in ballot or ballot.index(l) < ballot.index(w)):
            cl = 1
        else:
            cl = 0
        return cw, cl
    w, l, E = a[1], a[2], a[3]
    f = first_standing(ballot, E)
    return (1 if f == w else 0), (1 if f == l else 0)


@lru_cache(None)
def tables(n):
    """numpy tables: per alphabet ballot the (winner, loser) contribution to every assertion of U;
    contradiction matrix U x orders"""
    U = universe(n)
    alpha = list(rankings(n)) + [None]
    W = np.zeros((len(alpha), len(U)), dtype=np.int64)
    L = np.zeros((len(alpha), len(U)), dtype=np.int64)
    for i, b in enumerate(alpha):
        for j, a in enumerate(U):
            W[i, j], L[i, j] = counts_for(a, b)
    O = orders(n)
    C = np.zeros((len(U), len(O)), dtype=bool)
    for j, a in enumerate(U):
        for k, pi in enumerate(O):
            C[j, k] = contradicts(a, pi)
    has = np.array([0 if b is None else 1 for b in alpha], dtype=np.int64)
    return U, alpha, W, L, C, O, has


def difficulty(kind, w, l, total):
    """the two shipped difficulty functions, exactly: ballot polling 1/(p q^2), comparison 1/(assorter margin)"""
    if kind == "bp":
        return F((w + l) * total, (w - l) ** 2)
    if kind == "neg":  # a caller-supplied function that decreases as the margin grows and takes negative values
        return F(-(w - l))
    return F(total, w - l)


def analyse(n, profile_idx, winner, kind):
    """
    profile_idx: alphabet indices of the ballots.  Returns dict with
      true: {assertion: (tw, tl, difficulty)}; possible: bool; theta: Fraction or None;
      alt: list of alternative orders; best: per alt order min difficulty (None if uncontradicted)
    """
    U, alpha, W, L, C, O, has = tables(n)
    idx = np.asarray(profile_idx, dtype=np.int64)
    tw = W[idx].sum(axis=0) if len(idx) else np.zeros(len(U), dtype=np.int64)
    tl = L[idx].sum(axis=0) if len(idx) else np.zeros(len(U), dtype=np.int64)
    total = int(has[idx].sum()) if len(idx) else 0
    true = {}
    for j, a in enumerate(U):
        if tw[j] > tl[j]:
            true[a] = (int(tw[j]), int(tl[j]), difficulty(kind, int(tw[j]), int(tl[j]), total))
    alt = [k for k, pi in enumerate(O) if pi[-1] != winner]
    best = {}
    possible = True
    theta = None
    tj = [(j, a) for j, a in enumerate(U) if a in true]
    for k in alt:
        b = None
        for j, a in tj:
            if C[j, k]:
                d = true[a][2]
                if b is None or d < b:
                    b = d
        best[k] = b
        if b is None:
            possible = False
        elif theta is None or b > theta:
            theta = b
    return {"true": true, "possible": possible, "theta": theta if possible else None, "alt": alt, "best": best,
            "total": total, "orders": O}


def irv_possible_winners(n, ballots):
    """all candidates that can win under some tie-breaking (cross-check of the oracle)"""
    winners = set()

    def rec(E):
        standing = [c for c in range(n) if c not in E]
        if len(standing) == 1:
            winners.add(standing[0])
            return
        tall = {c: 0 for c in standing}
        for b in ballots:
            if b is None:
                continue
            f = first_standing(b, E)
            if f is not None:
                tall[f] += 1
        m = min(tall.values())
        for c in standing:
            if tall[c] == m:
                rec(E | {c})

    rec(frozenset())
    return winners


def irv_order(n, ballots):
    """one elimination order (ties broken towards the smaller index); last = winner"""
    E, order = set(), []
    while len(E) < n - 1:
        standing = [c for c in range(n) if c not in E]
        tall = {c: 0 for c in standing}
        for b in ballots:
            if b is None:
                continue
            f = first_standing(b, E)
            if f is not None:
                tall[f] += 1
        m = min(tall.values())
        c = min(c for c in standing if tall[c] == m)
        E.add(c)
        order.append(c)
    order.append(next(c for c in range(n) if c not in E))
    return order
