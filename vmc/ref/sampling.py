"""
Reference model of consistent sampling (Glazer, Spertus, Stark: "More style, less work"), written
from the property text.  No import of shangrla.

cards: list of (sample_num, frozenset of contests) in list order.
sizes: dict contest -> requested sample size.
"""
import hashlib


def consistent_sample(cards, sizes):
    """returns (selected indices in sample-number order, thresholds dict, per-contest index lists)"""
    order = sorted(range(len(cards)), key=lambda i: cards[i][0])
    per = {}
    thr = {}
    for c, n_c in sizes.items():
        own = [i for i in order if c in cards[i][1]]
        per[c] = own[:n_c]
        thr[c] = cards[own[n_c - 1]][0] if n_c >= 1 else None
    chosen = set()
    for c in per:
        chosen |= set(per[c])
    return [i for i in order if i in chosen], thr, per


def sha256_sample_num(seed, position):
    """the position-th (0-based) output of the SHA-256 counter PRNG for a seed (int or str)"""
    h = hashlib.sha256((str(seed) + ",").encode())
    h.update(b"\x00" * position)
    return int.from_bytes(h.digest(), "big")
